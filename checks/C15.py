"""C15 — an Ask returns its own reply or an error, and an in-time reply is never lost.

Proof:  Properties/C15.v over C15/Model.v (asker / responder / timer / context-recycling threads over the
        pooled reply channels and pooled ReceiveContexts, at atomic-step granularity; with and without
        the repair of fixes/C15-ask-reply-channel.diff).
Tie:    PID.Ask, package Ask, handleRemoteAsk, ReceiveContext.Response and the response-channel pool
        functions of the CURRENT tree are instrumented by tools/vinstr (a yield point before every
        responseClosed operation, channel operation, context get/build/enqueue) and driven on a real
        actor system by a director that parks asker goroutines and handler invocations at the points
        a script names (emulated preemption). The log of executed steps is translated label by label
        and replayed through the Coq model (cases file + vm_compute): the model must return, for every
        Ask, what the real call returned.
Oracle: independent of the model — a reply carries the id of its request: any other id is a violation;
        an error although the handler's Response call had returned before the deadline is a violation;
        on the scripted runs and on a stress run with real timing.
"""
import json
import os
import re

import vlib
from vlib import read_jsonl, canon_hash
import sched_util

RULES = r"\.responseClosed\.(\w+)$=closed.$1;^getContext$=ctx.Get;\.build$=build;\.doReceive$=enqueue;^timers\.Get$=timer.Get"
FILES = [("actor/pid.go", "pid_instr.go", "Ask"),
         ("actor/api.go", "api_instr.go", "Ask,toReceiveContext"),
         ("actor/receive_context.go", "rc_instr.go", "Response"),
         ("actor/pools.go", "pools_instr.go", "putResponseChannel,drainAnyChannel,pollResponseChannel"),
         ("actor/actor_system.go", "as_instr.go", "handleRemoteAsk")]

SIG_CROSS = "ask:stale-reply-into-repooled-channel"
SIG_LOST = "ask:select-takes-timer-while-reply-is-ready"
SIG_STOMP = "ask:late-responseClosed-store-on-recycled-context"
NOISE_BASE = 900000
APIS = ["pid", "pkg", "remote"]


def sel_fn(api):
    return "handleRemoteAsk" if api == "remote" else "Ask"


class Script:
    def __init__(self, name):
        self.name, self.ops, self.asks = name, [], {}

    def start(self, i, api, timeout_ms, nresp, target=0, cancel=False):
        self.asks[i] = {"api": api, "timeout_ms": timeout_ms, "nresp": nresp, "target": target}
        self.ops.append({"op": "start", "i": i, "api": api, "timeout_ms": timeout_ms, "nresp": nresp, "target": target, "cancel": cancel})
        return self

    def cancel(self, i):
        self.ops.append({"op": "cancel", "i": i})
        return self

    def to_select(self, i):
        self.ops.append({"op": "run", "t": "A%d" % i, "until_fn": sel_fn(self.asks[i]["api"]), "until_kind": "select"})
        return self

    def run_done(self, t):
        self.ops.append({"op": "run", "t": t, "done": True})
        return self

    def run_until(self, t, fn, kind):
        self.ops.append({"op": "run", "t": t, "until_fn": fn, "until_kind": kind})
        return self

    def wait(self, i):
        self.ops.append({"op": "wait_parked", "t": "R%d" % i})
        return self

    def deadline(self, i):
        self.ops.append({"op": "sleep_deadline", "i": i})
        return self

    def tell(self, n, target=0):
        self.ops.append({"op": "tell", "n": n, "target": target})
        return self

    def after_enqueue(self, i):
        """run asker i until it has enqueued its message and is about to start its timer"""
        self.ops.append({"op": "run", "t": "A%d" % i, "until_fn": sel_fn(self.asks[i]["api"]), "until_kind": "timer.Get"})
        return self

    def noise(self, kind, n, target=0):
        self.ops.append({"op": "noise", "kind": kind, "n": n, "target": target})
        return self

    def keep_ctx(self, i):
        self.ops.append({"op": "keep_only_ctx", "i": i})
        return self

    def op(self, name):
        self.ops.append({"op": name})
        return self


def scripts(ctx):
    rng = ctx.rng
    out = []
    short = 40
    # ---- witnesses first (corpus) ----
    for api in APIS:
        s = Script("W-cross-" + api).op("drain_ch_pool").start(0, api, short, 1).to_select(0).wait(0)
        s.run_until("R0", "Response", "select").deadline(0).run_done("A0")
        s.start(1, api, 2000, 1).to_select(1).run_done("R0").wait(1).run_done("R1").run_done("A1")
        out.append(s)
    for api in APIS:
        s = Script("W-stomp-" + api).op("drain_ch_pool").op("drain_ctx_pool").start(0, api, 2000, 1).to_select(0).wait(0).run_done("R0")
        s.tell(1).keep_ctx(0).start(1, api, 60, 1).to_select(1).run_done("A0").wait(1).run_done("R1").deadline(1).run_done("A1")
        out.append(s)
    # the late store lands on the recycled context BEFORE the next Ask builds it: build must reset the flag
    for api in APIS:
        s = Script("W-store-before-rebuild-" + api).op("drain_ch_pool").op("drain_ctx_pool").start(0, api, 2000, 1).to_select(0).wait(0).run_done("R0")
        s.tell(1).keep_ctx(0).run_done("A0").start(1, api, 2000, 1).to_select(1).wait(1).run_done("R1").run_done("A1")
        out.append(s)
    # the target answers, and the mailbox recycles the context (optionally another Ask rebuilds it), while the
    # asker is still between its enqueue and its select: the asker must already hold its own channel
    for api in APIS:
        for reuse in (False, True):
            s = Script("W-recycled-before-asker-waits-%s%s" % (api, "-reused" if reuse else "")).op("drain_ch_pool").op("drain_ctx_pool")
            s.start(0, api, 1500, 1).after_enqueue(0).wait(0).run_done("R0").tell(1).keep_ctx(0)
            if reuse:
                s.start(1, api, 2000, 1).to_select(1).wait(1).run_done("R1").run_done("A1")
            s.run_done("A0")
            out.append(s)
    # deliveries that are not Asks (Tell, PipeTo, PipeToName) to an actor that calls Response on them: no Ask,
    # before or after, may see such a reply
    for kind in ("tell", "pipe", "pipename"):
        for api in APIS[:2] if kind != "pipe" else APIS:
            s = Script("W-noise-%s-%s" % (kind, api)).op("drain_ch_pool").noise(kind, 2, 0)
            s.start(0, api, 2000, 1).to_select(0).wait(0).run_done("R0").run_done("A0")
            s.noise(kind, 1, 1).start(1, api, 2000, 1, 1).to_select(1).wait(1).run_done("R1").run_done("A1")
            out.append(s)
    n_lost = 36 if ctx.thorough else 14
    for k in range(n_lost):
        api = APIS[k % 3]
        s = Script("W-both-ready-%d" % k).start(0, api, short, 1 + (k % 2)).to_select(0).wait(0).run_done("R0").deadline(0).run_done("A0")
        out.append(s)
    # the same with a cancelled context instead of the deadline (the ctx.Done branch of each Ask)
    n_canc = 18 if ctx.thorough else 9
    for k in range(n_canc):
        api = APIS[k % 3]
        s = Script("W-both-ready-cancel-%d" % k).start(0, api, 3000, 1, 0, True).to_select(0).wait(0).run_done("R0").cancel(0).run_done("A0")
        out.append(s)
    for api in APIS:
        s = Script("W-cross-cancel-" + api).op("drain_ch_pool").start(0, api, 3000, 1, 0, True).to_select(0).wait(0)
        s.run_until("R0", "Response", "select").cancel(0).run_done("A0")
        s.start(1, api, 2000, 1).to_select(1).run_done("R0").wait(1).run_done("R1").run_done("A1")
        out.append(s)
    # stale reply lands in the channel after it was pooled again: the NEXT ask finds it there
    for api in APIS[:2]:
        s = Script("W-stale-in-pool-" + api).op("drain_ch_pool").start(0, api, short, 1, 0).to_select(0).wait(0)
        s.run_until("R0", "Response", "select").deadline(0).run_done("A0")
        s.start(1, api, 2000, 1, 1).to_select(1).wait(1).run_done("R1").run_done("A1").run_done("R0")
        s.start(2, api, 2000, 1, 1).to_select(2).wait(2).run_done("R2").run_done("A2")
        out.append(s)
    # a handler that calls Response twice: the second call comes after the asker has returned and pooled
    # its channel again; it must be refused, else the next Ask finds a stale reply
    for api in APIS:
        s = Script("W-double-response-" + api).op("drain_ch_pool").start(0, api, 2000, 2).to_select(0).wait(0)
        s.run_until("R0", "Response", "select").run_until("R0", "Response", "").run_done("A0").run_done("R0")
        s.start(1, api, 2000, 1).to_select(1).wait(1).run_done("R1").run_done("A1")
        out.append(s)
    # ---- generated compositions ----
    n_gen = 300 if ctx.thorough else 40
    for k in range(n_gen):
        s = Script("gen-%d" % k)
        if rng.random() < 0.8:
            s.op("drain_ch_pool")
        if rng.random() < 0.3:
            s.op("drain_ctx_pool")
        held = None
        nasks = rng.randint(1, 3)
        for i in range(nasks):
            api = rng.choice(APIS)
            plan = rng.choice(["fast", "fast", "fast2", "both", "noreply", "late", "held", "early"]) if held is None else rng.choice(["fast", "fast2", "both", "noreply"])
            if rng.random() < 0.2:
                # never to a target whose handler is being held by the script (it could not handle the message)
                s.noise(rng.choice(["tell", "pipe", "pipename"]), rng.randint(1, 2), 1 if held is not None else rng.randrange(2))
            target = 0 if held is None else 1
            A, R = "A%d" % i, "R%d" % i
            if plan in ("fast", "fast2"):
                s.start(i, api, 2000, 2 if plan == "fast2" else 1, target).to_select(i).wait(i)
                if held is not None and rng.random() < 0.4:
                    s.run_done("R%d" % held); held = None
                s.run_done(R)
                if held is not None and rng.random() < 0.4:
                    s.run_done("R%d" % held); held = None
                s.run_done(A)
            elif plan == "early":
                s.start(i, api, 1500, 1, target).after_enqueue(i).wait(i).run_done(R)
                if rng.random() < 0.7:
                    s.tell(1, target)
                    if rng.random() < 0.6:
                        s.keep_ctx(i)
                s.run_done(A)
            elif plan == "both":
                s.start(i, api, short, 1, target).to_select(i).wait(i).run_done(R).deadline(i).run_done(A)
            elif plan == "noreply":
                s.start(i, api, short, 0, target).to_select(i).wait(i).run_done(R).deadline(i).run_done(A)
            elif plan == "late":
                s.start(i, api, short, 1, target).to_select(i).wait(i).deadline(i).run_done(A).run_done(R)
            elif plan == "held":
                s.start(i, api, short, 1, target).to_select(i).wait(i).run_until(R, "Response", "select").deadline(i).run_done(A)
                held = i
            if rng.random() < 0.25 and held is None:
                s.tell(rng.randint(1, 2), target)
                if rng.random() < 0.6:
                    s.keep_ctx(i)
        if held is not None:
            s.run_done("R%d" % held)
        out.append(s)
    return out


def translate(script, out):
    """log of executed steps -> model labels (as Coq text) + expected results; returns (fixed_shape, labels, nresps, exp)"""
    asks = {a["id"]: a for a in out["asks"]}
    log = out["log"]
    fixed = not any(e["kind"] == "closed.Store" and e["t"].startswith("A") for e in log)
    has_poll = {}
    for e in log:
        if e["fn"] == "pollResponseChannel":
            has_poll[e["t"]] = True
    labels = []
    last_drain = {}
    handled_on = {}     # target -> list of ask ids whose handler ended, in order
    recycled = set()
    tell_targets = [op.get("target", 0) for op in script.ops if op["op"] in ("tell", "noise")]
    tell_idx = 0
    started_handlers = set()
    last_msg_on = {}    # target -> last ask whose handler ended on it

    def same_as(i, key):
        v = asks[i][key]
        if v < 0:
            return None
        best = None
        for j in sorted(asks):
            if j < i and asks[j][key] == v:
                best = j
        return best

    def opt(j):
        return "None" if j is None else "(Some %d)" % j

    for e in log:
        t, fn, kind = e["t"], e["fn"], e["kind"]
        if fn == "director":
            if kind == "tick":
                labels.append("HTick %d" % int(t[1:]))
            elif kind in ("recycle", "noise"):
                tgt = tell_targets[tell_idx] if tell_idx < len(tell_targets) else 0
                tell_idx += 1
                j = last_msg_on.get(tgt)
                if j is not None and j not in recycled:
                    recycled.add(j)
                    labels.append("HRecycle %d" % j)
                last_msg_on[tgt] = None
            continue
        i = int(t[1:])
        if t[0] == "A":
            if fn == "harness" or kind == "timer.Get":
                continue
            if kind == "ctx.Get":
                labels.append("HAsker %d %s SelReply" % (i, opt(same_as(i, "ctx"))))
            elif kind == "build":
                labels.append("HAsker %d %s SelReply" % (i, opt(same_as(i, "chan"))))
            elif kind == "enqueue":
                labels.append("HAsker %d None SelReply" % i)
            elif kind == "select" and fn in ("Ask", "handleRemoteAsk"):
                if fixed:
                    timer = has_poll.get(t, False)
                else:
                    timer = asks[i]["reply"] < 0
                labels.append("HAsker %d None %s" % (i, "SelTimer" if timer else "SelReply"))
            elif fn == "drainAnyChannel":
                if last_drain.get(t):
                    continue
                last_drain[t] = True
                labels.append("HAsker %d None SelReply" % i)
                continue
            else:  # closed.Store, pollResponseChannel/select, putResponseChannel/select
                labels.append("HAsker %d None SelReply" % i)
            last_drain[t] = False
        else:
            tgt = script.asks[i]["target"]
            if i not in started_handlers:
                started_handlers.add(i)
                j = last_msg_on.get(tgt)
                if j is not None and j not in recycled:
                    recycled.add(j)
                    labels.append("HRecycle %d" % j)
            labels.append("HResp %d" % i)
            if fn == "handler" and kind == "end":
                last_msg_on[tgt] = i
    n = max(asks) + 1 if asks else 0
    nresps = [script.asks[i]["nresp"] for i in range(n)]
    exp = ["Some (Some %d)" % asks[i]["reply"] if asks[i]["reply"] >= 0 else "Some None" for i in range(n)]
    return fixed, labels, nresps, exp


def oracle(script, out):
    """returns list of (signature, text)"""
    bad = []
    log = out["log"]
    for a in out["asks"]:
        i = a["id"]
        if a["reply"] >= NOISE_BASE:
            bad.append(("ask:reply-to-a-message-that-was-not-an-ask", "Ask #%d (%s) returned the value the target passed to Response while handling a %s message (not an Ask)" % (i, a["api"], "Tell/PipeTo/PipeToName")))
        elif a["reply"] >= 0 and a["reply"] != i:
            bad.append((SIG_CROSS, "Ask #%d (%s) returned the reply to request #%d" % (i, a["api"], a["reply"])))
        if a["reply"] < 0:
            # did the handler's first Response call return before the deadline passed?
            r_entries = [k for k, e in enumerate(log) if e["t"] == "R%d" % i]
            tick = [k for k, e in enumerate(log) if e["t"] == "A%d" % i and e["fn"] == "director" and e["kind"] == "tick"]
            if not tick:
                # no deadline was scripted: the real timer ran out while the asker was blocked in select; the
                # deadline is later than the moment the asker entered the select
                tick = [k for k, e in enumerate(log) if e["t"] == "A%d" % i and e["kind"] == "select" and e["fn"] in ("Ask", "handleRemoteAsk")][:1]
            nresp = script.asks[i]["nresp"]
            if nresp == 0 or not r_entries or not tick:
                continue
            first = log[r_entries[0]]
            # the first call is complete once the handler executes anything after it: find the entry following
            # the first call's last step
            k = 0
            sent = False
            if len(r_entries) >= 2 and log[r_entries[1]]["kind"] == "select":
                k = 2
                sent = True
            else:
                k = 1
            if len(r_entries) > k and r_entries[k] < tick[0]:
                if sent:
                    bad.append((SIG_LOST, "Ask #%d (%s, timeout %dms) returned %r although the handler's Response had put the reply into the channel before the deadline" % (i, a["api"], a["timeout_ms"], a["err"])))
                else:
                    bad.append((SIG_STOMP, "Ask #%d (%s) returned %r: the handler called Response before the deadline but the call was refused (responseClosed already true)" % (i, a["api"], a["err"])))
    return bad


def stress_oracle(recs):
    """real timing, no model: a violation is attributed to a listed finding only when it has that finding's shape"""
    bad = []
    by_id = {r["id"]: r for r in recs}
    for r in recs:
        if r["reply"] >= NOISE_BASE:
            bad.append(("ask:reply-to-a-message-that-was-not-an-ask", "stress: Ask #%d (%s) returned the value its target passed to Response while handling a Tell/PipeTo/PipeToName message" % (r["id"], r["api"]), r))
        elif r["reply"] >= 0 and r["reply"] != r["id"]:
            owner = by_id.get(r["reply"])
            if owner is not None and owner["reply"] < 0 and owner["end_ns"] <= r["end_ns"]:
                # the listed shape: the reply's own Ask had given up (and re-pooled its channel) before
                bad.append((SIG_CROSS, "stress: Ask #%d (%s) returned the reply to request #%d, whose own Ask had timed out" % (r["id"], r["api"], r["reply"]), r))
            else:
                bad.append(("ask:cross-delivery-of-a-reply-whose-ask-had-not-given-up", "stress: Ask #%d (%s) returned the reply to request #%d although that Ask had not timed out" % (r["id"], r["api"], r["reply"]), r))
        elif r["reply"] < 0 and r["sent_ns"] and r["sent_ns"] < r["start_ns"] + r["timeout_ns"] - 50000:
            bad.append((SIG_LOST, "stress: Ask #%d (%s, timeout %dus) returned %r although the handler's Response calls had returned %dus before the earliest possible deadline" %
                        (r["id"], r["api"], r["timeout_ns"] // 1000, r["err"], (r["start_ns"] + r["timeout_ns"] - r["sent_ns"]) // 1000), r))
        elif r["reply"] < 0 and "timed out" not in r["err"] and "deadline" not in r["err"]:
            bad.append(("ask:unexpected-error", "stress: Ask #%d failed with %r" % (r["id"], r["err"]), r))
    return bad


def remote_oracle(recs):
    """PID.Ask to a remote PID over loopback TCP; returns (violations, other_errors)"""
    bad, other = [], []
    for r in recs:
        if r["reply"] >= 0 and r["reply"] != r["id"]:
            bad.append(("remote-ask:reply-to-another-request", "remote Ask #%d (%s sequence %d, position %d) returned the reply to request #%d" % (r["id"], r["mode"], r["seq"], r["index"], r["reply"]), r))
        elif r["reply"] < 0:
            timeoutish = "timed out" in r["err"] or "deadline" in r["err"] or "timeout" in r["err"]
            if not timeoutish:
                other.append(r)
            elif r["delay_us"] * 20 + 100000 < r["timeout_us"]:
                bad.append(("remote-ask:in-time-reply-lost", "remote Ask #%d (%s sequence %d, position %d) failed with %r after %d us although its target answers within %d us and the deadline was %d us" %
                            (r["id"], r["mode"], r["seq"], r["index"], r["err"], r["took_us"], r["delay_us"], r["timeout_us"]), r))
    return bad, other


def run(ctx):
    ctx.trusted += ["tools/vinstr (yield points before responseClosed / channel / context-pool statements of the current Ask, handleRemoteAsk, Response, putResponseChannel, drainAnyChannel)",
                    "the director in go/inpkg/actor/zz_verif_C15_test.go (parks asker goroutines and handler invocations at scripted points; goroutine identity from runtime.Stack)",
                    "Go: select chooses among ready cases arbitrarily; channel and atomic.Bool operations are atomic steps",
                    "wall-clock deadlines in scripted runs are passed by sleeping 25 ms beyond them"]
    ctx.assumptions += ["a ReceiveContext is recycled only after its handler returned (mailbox Dequeue of the next message) — modelled as the environment step LRecycle",
                        "user handlers call Response during their own turn"]
    insts = {}
    for rel, outn, funcs in FILES:
        p, msg = sched_util.instrument(ctx, rel, outn, RULES, chan=True, funcs=funcs, hook="verifC15Point")
        if p is None:
            ctx.tie_broken("vinstr " + rel, msg)
            ctx.coverage.update({"evaluations": 0, "distinct_nontrivial": 0})
            return
        insts[rel] = p

    scs = scripts(ctx)
    with open(os.path.join(ctx.work, "c15_in.jsonl"), "w") as f:
        for k, s in enumerate(scs):
            f.write(json.dumps({"id": k, "name": s.name, "script": s.ops}) + "\n")
    for fn in ("c15_out.jsonl", "c15_stress.jsonl", "c15_remote.jsonl"):
        p = os.path.join(ctx.work, fn)
        if os.path.exists(p):
            os.remove(p)
    env = {"VERIF_C15_ASKERS": "32" if ctx.thorough else "16", "VERIF_C15_PER_ASKER": "400" if ctx.thorough else "100",
           "VERIF_C15_REMOTE_SEQS": "20" if ctx.thorough else "5"}
    rc, gout = sched_util.go_test_overlay(ctx, ["actor"], "^TestVerifC15", {"actor": ["zz_verif_C15_hook.go", "zz_verif_C15_test.go", "zz_verif_C15remote_test.go"]},
                                          insts, env=env, timeout=1500 if ctx.thorough else 600)
    ctx.log("go harness done rc=%d" % rc)
    outs = read_jsonl(os.path.join(ctx.work, "c15_out.jsonl"))
    stress = read_jsonl(os.path.join(ctx.work, "c15_stress.jsonl"))
    remote = read_jsonl(os.path.join(ctx.work, "c15_remote.jsonl"))
    if rc != 0 or len(outs) != len(scs):
        ctx.tie_broken("go-harness actor (instrumented Ask paths): build or run failed", gout)
    broken = [(s, o) for s, o in zip(scs, outs) if o.get("error")]
    if broken:
        s, o = broken[0]
        ctx.tie_broken("scripted run could not be executed as written (the atomic steps of the Ask path changed)",
                       {"script": s.name, "error": o["error"], "ops": s.ops, "log_so_far": o.get("log"), "n_scripts_failing": len(broken)})
    good = [(k, s, o) for k, (s, o) in enumerate(zip(scs, outs)) if not o.get("error") and o.get("asks")]

    # ---------------- model conformance ----------------
    shapes = set()
    rows = []
    for k, s, o in good:
        fixed, labels, nresps, exp = translate(s, o)
        shapes.add(fixed)
        rows.append("(%d, [%s], [%s], [%s])" % (k, "; ".join(str(x) for x in nresps), "; ".join(labels), "; ".join(exp)))
    fixed_shape = shapes == {True}
    if len(shapes) > 1:
        ctx.notes.append("some Ask paths store responseClosed on exit and some do not (mixed shapes); compared with the unrepaired model")
    ctx.notes.append("Ask shape detected from the run: %s" % ("asker never touches the context after enqueue, polls on timeout" if fixed_shape else "asker stores responseClosed and re-pools the channel on every exit"))
    mism = []
    if rows:
        body = "\n".join(["From Coq Require Import List Arith Bool. Import ListNotations.",
                          "From GV Require Import C15.Model C15.Tie.",
                          "Definition cs : list ccase := [", ";\n".join(rows), "].",
                          "Eval vm_compute in (check_cases %s cs)." % ("true" if fixed_shape else "false")])
        d = os.path.join(ctx.work, "coq")
        os.makedirs(d, exist_ok=True)
        p = os.path.join(d, "cases_C15.v")
        open(p, "w").write(body)
        rc2, o2 = vlib.sh(["coqc", "-noglob", "-Q", os.path.join(vlib.COQ, "theories"), "GV", "-Q", d, "Scratch", p], cwd=d, timeout=600)
        flat = " ".join(o2.split())
        m = re.search(r"= \((\d+), (\[.*?\])\)", flat)
        if rc2 != 0 or not m:
            ctx.tie_broken("cases_C15.v did not evaluate", o2[-3000:])
        else:
            mism = [int(x) for x in re.findall(r"\d+", m.group(2))]
            if mism:
                k = mism[0]
                ctx.tie_broken("Ask model vs implementation (scripted interleaving)",
                               {"script": scs[k].name, "ops": scs[k].ops, "log": outs[k]["log"], "real_results": outs[k]["asks"], "n_cases": len(mism)})

    # ---------------- property oracle ----------------
    seen = {}
    for k, s, o in good:
        for sig, text in oracle(s, o):
            if k in mism:
                # the model of the code (with its listed defects) does NOT produce this outcome on this interleaving:
                # it is not one of the known findings, whatever it looks like
                sig, text = sig + ":not-explained-by-the-model", text + " — and the model of the Ask path does not reproduce this outcome on the same interleaving"
            seen.setdefault(sig, []).append((s, o, text))
    n_lost_trials = sum(1 for k, s, o in good if s.name.startswith("W-both-ready"))
    n_cancel_trials = sum(1 for k, s, o in good if s.name.startswith("W-both-ready-cancel"))
    n_lost = len([1 for s, o, t in seen.get(SIG_LOST, []) if s.name.startswith("W-both-ready")])
    for sig, lst in seen.items():
        s, o, text = lst[0]
        ctx.violation(sig, "%s [script %s, %d scripted runs show it]" % (text, s.name, len(lst)),
                      {"script": s.name, "ops": s.ops, "log_of_executed_steps": o["log"], "results": o["asks"]})
    sbad = stress_oracle(stress)
    ssig = {}
    for sig, text, r in sbad:
        ssig.setdefault(sig, []).append((text, r))
    for sig, lst in ssig.items():
        if sig in seen:
            continue
        ctx.violation(sig, "%s [%d of %d stress asks]" % (lst[0][0], len(lst), len(stress)), {"level": "stress", "record": lst[0][1]})

    # remote leg
    rbad, rother = remote_oracle(remote)
    rsig = {}
    for sig, text, r in rbad:
        rsig.setdefault(sig, []).append((text, r))
    for sig, lst in rsig.items():
        seqs = sorted({x[1]["seq"] for x in lst})
        ctx.violation(sig, "%s [%d of %d remote Asks]" % (lst[0][0], len(lst), len(remote)),
                      {"level": "PID.Ask over loopback remoting", "first": lst[0][1],
                       "the_sequence_it_belongs_to": [x for x in remote if x["seq"] == lst[0][1]["seq"]], "sequences_affected": seqs})
    if rother:
        ctx.notes.append("%d of %d remote Asks failed with a non-timeout error (first: %r); not judged" % (len(rother), len(remote), rother[0]["err"]))
    if rc == 0 and (not remote or len(rother) * 2 > len(remote)):
        ctx.tie_broken("remote Ask harness did not run (no records or mostly transport errors)", {"records": len(remote), "first_error": rother[0]["err"] if rother else None})

    # ---------------- the theorems ----------------
    ctx.log("oracles done; building Properties/C15.vo")
    if not ctx.coq_property():
        if not any(f.kind == "violation" for f in ctx.findings):
            ctx.proof_broken("Properties/C15.v (%s)" % getattr(ctx, "failed_at", "?"), getattr(ctx, "coq_log", ""))
        else:
            ctx.notes.append("Coq obligation broken at %s; concrete failing input reported" % getattr(ctx, "failed_at", "?"))

    distinct = {canon_hash([s.ops, [(a["reply"], a["ctx"], a["chan"]) for a in o["asks"]]]) for k, s, o in good
                if len({e["t"] for e in o["log"]}) >= 2}
    st_err = sum(1 for r in stress if r["reply"] < 0)
    ctx.coverage.update({
        "evaluations": len(outs) + len(stress) + len(remote),
        "distinct_nontrivial": len(distinct),
        "rule": "scripted interleavings of 1-3 Asks over the three Ask implementations (PID.Ask, package Ask, handleRemoteAsk): witness scripts (stale reply into a re-pooled channel, reply and timer both ready, late store on a recycled context, stale reply found in the pool) then seeded compositions of plans {fast, double Response, both ready, no reply, late reply, responder held between CAS and send} with pool draining and context recycling; non-trivial = at least an asker and a handler thread took steps; distinct by (script, results, context/channel identities). Stress: real goroutines, timeouts 0.3-2.8 ms, handler delays around the deadline",
        "samples": [{"script": scs[0].name, "ops": scs[0].ops[:8]}, {"log": outs[0]["log"][:12] if outs else None},
                    {"script": scs[-1].name, "results": outs[-1].get("asks") if outs else None}],
        "scripts": len(scs), "scripts_replayed_through_model": len(rows), "model_mismatches": len(mism),
        "steps_logged": sum(len(o.get("log") or []) for o in outs),
        "both_ready_trials": n_lost_trials, "both_ready_trials_lost": n_lost, "of_which_by_cancellation": n_cancel_trials,
        "stress_asks": len(stress), "stress_errors": st_err, "remote_asks": len(remote),
        "remote_asks_given_up": sum(1 for r in remote if r["reply"] < 0),
        "oracle_findings_by_signature": {k: len(v) for k, v in seen.items()},
        "ask_shape_repaired": fixed_shape,
        "theorems": THEOREMS,
    })


THEOREMS = ["C15_cross_refuted", "C15_lost_refuted", "C15_ctx_reuse_refuted", "C15_no_cross_delivery_partial",
            "C15_in_time_reply_returned_partial", "C15_own_reply_partial", "C15_as_is_no_failure_partial"]

META = {
    "ready": True,
    "category": "proof",
    "technique": "Rocq proof over a hand-written atomic-step model + scripted-preemption replay of the instrumented real Ask paths + independent oracle",
    "text": "Ask reply path (asker, responder, timer, context recycling, pooled channels and contexts) modelled at atomic-step granularity.",
    "design_ref": "DESIGN.md 7/C15",
    "level_note": "Trusted: Coq kernel, vinstr + director, Go select/channel semantics as modelled.",
}
