"""C11 — a name maps to at most one running actor in a system.

Proof:  Properties/C11.v over C11/Model.v (per-path single flight, lookup, newPID/PreStart, counter,
        addNode with canonical-instance return, Shutdown, death watch deleting by path) — any number
        of names, callers and stoppers, any interleaving.
Tie:    (M) generated driver sequences on real actor systems: concurrent Spawn/SpawnNamedFromFunc/
        SpawnChild calls of the same and different names (winner's PreStart gated), Kill(name), death
        watch held (emulated preemption with its own dispatch-state atomic) — observation after every
        action compared with the Coq model (cases.v + vm_compute);
        (S) stress: 2-8 real goroutines per name, several names, fresh and kill+respawn phases.
Oracle: distinct PIDs handed out per name, every handed PID running, running instances per name,
        NumActors vs running user actors.
"""
import json
import os
import re

from vlib import read_jsonl, canon_hash

import c11_util as U

THEOREMS = ["C11_same_flight_same_result", "C11_counter_share", "C11_at_most_one_running_partial",
            "C11_handed_pid_is_running_partial", "C11_num_actors_partial", "C11_counter_at_quiescence_partial",
            "C11_respawn_refuted", "C11_respawn_child_refuted", "C11_driver_within_model"]


def nl(l):
    return "[" + ";".join(str(x) for x in l) + "]"


def nll(ll):
    return "[" + ";".join(nl(l) for l in ll) + "]"


def model_oracle(sc, out):
    """C11's own predicate on the observations of one real run (independent of the model):
    at quiescent points (after every action) per name: at most one running instance; every result
    handed out equals the registered instance at the time the call completed is not checkable after
    the fact, so: all results of calls completed within one action agree, and no result is a stopped
    instance unless it was stopped later by the script; NumActors = number of names with a running
    registered instance when nothing is gated/held."""
    found = []
    k = sc["k"]
    sim = U.Sim(k, [n for n in range(k) if sc["kinds"][n] == "child"])
    prev_results = [[] for _ in range(k)]
    stopped_after = [set() for _ in range(k)]
    for ai, (a, st) in enumerate(zip(sc["actions"], out["steps"])):
        sim.drive(a)
        o = st["o"]
        for n in range(k):
            reg, alive = o[2 * n]
            res = o[2 * n + 1]
            if alive > 1:
                found.append(("two-running-instances", "name nm%d: %d instances run at the same time after action %d %s" % (n, alive, ai, a),
                              {"action_index": ai, "name": n}))
            new = list(res)
            for r in prev_results[n]:
                if r in new:
                    new.remove(r)
            okres = set(r for r in new if r != 0)      # 0 = the call returned an error (its own context, or the flight failed)
            if len(okres) > 1:
                found.append(("callers-got-different-pids", "name nm%d: calls completing together were handed different instances %s" % (n, sorted(okres)),
                              {"action_index": ai, "name": n}))
            for r in set(new):
                # a result is wrong if the instance handed out is not the running registered one at that point
                if r != 0 and not (reg == r and alive >= 1):
                    found.append(("handed-pid-not-running-registered",
                                  "name nm%d: a caller was handed instance %d while the registered instance is %s and %d instance(s) run (after action %d %s)" %
                                  (n, r - 1, reg - 1 if reg else None, alive, ai, a), {"action_index": ai, "name": n}))
            prev_results[n] = list(res)
        quiet = (not sim.gated) and (not sim.held) and all(x.flight is None and not x.term for x in sim.N)
        if quiet:
            want = sum(1 for n in range(k) if o[2 * n][0] != 0 and o[2 * n][1] >= 1)
            running_total = sum(o[2 * n][1] for n in range(k))
            if o[2 * k][0] != running_total:
                shown = "NumActors went below zero (the unsigned counter wrapped)" if o[2 * k][0] == 4999 else "NumActors=%d" % o[2 * k][0]
                found.append(("numactors-differs-from-running-actors", "%s but %d user actors of the scenario run (registered running: %d) after action %d %s" %
                              (shown, running_total, want, ai, a), {"action_index": ai}))
    return found


def classify(sc, sig):
    """violations that need a lookup of the name while its node still holds a stopped instance
    (death watch held between a stop and a call) belong to the known family"""
    held = False
    stale = False
    stopped_while_held = set()
    for a in sc["actions"]:
        if a[0] == "hold_dw":
            held = True
        elif a[0] == "release_dw":
            held = False
            stopped_while_held = set()
        elif a[0] == "stop" and held:
            stopped_while_held.add(a[1])
        elif a[0] == "call" and a[1] in stopped_while_held:
            stale = True
    if stale:
        return "respawn-before-deathwatch-reap:" + sig
    return sig


def run(ctx):
    ctx.trusted += ["hand-written Gallina model C11/Model.v (tied each run, observation after every driver action)",
                    "x/sync singleflight contract (callers during a flight share its result; key forgotten on completion) — exercised, not proved",
                    "Go runtime scheduler for the un-gated parts of a scenario"]
    ctx.assumptions += ["cluster mode off except in the registry scenarios (mock registry: ActorExists=false, PutActor fails on demand); reliable-delivery companions not spawned",
                        "instances of a func actor are identified by creation order (exact for struct actors)"]
    scs = U.gen_scenarios(ctx)
    with open(os.path.join(ctx.work, "c11_model_in.jsonl"), "w") as f:
        for c in scs:
            f.write(json.dumps({k: c[k] for k in ("k", "kinds", "actions", "expect", "cluster")}) + "\n")
    for fn in ("c11_model_out.jsonl", "c11_stress_out.jsonl"):
        p = os.path.join(ctx.work, fn)
        if os.path.exists(p):
            os.remove(p)
    rc, out = ctx.go_test("actor", "^TestVerifC11", ["zz_verif_C11_test.go"],
                          env={"VERIF_C11_ROUNDS": "40" if ctx.thorough else "6"})
    ctx.log("go harness done rc=%s" % rc)
    mouts = read_jsonl(os.path.join(ctx.work, "c11_model_out.jsonl"))
    souts = read_jsonl(os.path.join(ctx.work, "c11_stress_out.jsonl"))
    if rc != 0 or len(mouts) != len(scs) or not souts:
        ctx.tie_broken("go-harness C11 (model scenarios + stress)", out)
    seen = {}

    def report(sig, what, replay):
        if seen.get(sig, 0) < 1:
            seen[sig] = 1
            ctx.violation(sig, what, replay)
    # ---- oracle (M)
    n_steps = 0
    hist = {}
    timeouts = 0
    nontrivial = set()
    for sc, o in zip(scs, mouts):
        n_steps += len(o["steps"])
        timeouts += sum(1 for s_ in o["steps"] if s_["timeout"])
        for a in sc["actions"]:
            hist[a[0]] = hist.get(a[0], 0) + 1
        for sig, what, detail in model_oracle(sc, o):
            report(classify(sc, sig), what, {"scenario": {k: sc[k] for k in ("k", "kinds", "actions", "cluster")}, "detail": detail,
                                             "observations": [s_["o"] for s_ in o["steps"]],
                                             "how": "TestVerifC11Model on a real actor system (obs per name: [registered instance+1, running instances], results handed so far; last: NumActors)"})
        calls = {}
        for a in sc["actions"]:
            if a[0] == "call":
                calls[a[1]] = calls.get(a[1], 0) + 1
        if any(v >= 2 for v in calls.values()):
            nontrivial.add(canon_hash({k: sc[k] for k in ("k", "kinds", "actions", "cluster")}))
    # ---- oracle (S)
    for so in souts:
        if so["phase"] == "respawn-skipped":
            continue
        for n in range(so["names"]):
            tag = "%s/%s" % (so["kind"], so["phase"])
            if so["distinct_pids"][n] > 1:
                report("stress:callers-got-different-pids", "%s: %d concurrent callers of one name were handed %d distinct PIDs" % (tag, so["callers"], so["distinct_pids"][n]), so)
            if so["alive"][n] > 1:
                report("stress:two-running-instances", "%s: %d instances of one name run after %d concurrent spawns" % (tag, so["alive"][n], so["callers"]), so)
            if so["not_running"][n] > 0:
                report("stress:handed-pid-not-running", "%s: %d callers were handed a PID that is not running" % (tag, so["not_running"][n]), so)
        if so["phase"] != "respawn-skipped" and so["errors"] == 0 and so["num_actors"] != sum(so["alive"]):
            report("stress:numactors-differs-from-running-actors", "%s/%s: NumActors=%d but %d user actors run" % (so["kind"], so["phase"], so["num_actors"], sum(so["alive"])), so)
    # ---- the Coq model on the same scenarios
    mism = None
    if mouts and len(mouts) == len(scs):
        items = []
        for sc, o in zip(scs, mouts):
            ds = ";".join(U.coq_action(a) for a in sc["actions"])
            exp = ";".join("(%d,%s)" % (st["f"], nll(st["o"])) for st in o["steps"])
            kids = nl([n for n in range(sc["k"]) if sc["kinds"][n] == "child"])
            items.append("(%s,%d,[%s],[%s])" % (kids, sc["k"], ds, exp))
        body = """From Coq Require Import List. Import ListNotations.
From GV Require Import C11.Model.
Definition cases : list (list nat * nat * list daction * list (nat * list (list nat))) := [
%s
].
Definition diffs := combine (seq 0 (length cases)) (map scenario_diff cases).
Definition bad := filter (fun x => match snd x with Some _ => true | None => false end) diffs.
Definition summary := (length cases, length bad, map (fun x => (fst x, match snd x with Some s => s | None => 0 end)) (firstn 3 bad)).
Eval vm_compute in summary.
""" % ";\n".join(items)
        rc2, o2 = ctx.coq_eval("cases_C11", body)
        flat = " ".join(o2.split())
        m = re.search(r"= \((\d+), (\d+), (\[.*?\])\)", flat)
        if rc2 != 0 or not m:
            ctx.tie_broken("C11 model evaluation (cases.v did not evaluate)", o2)
        else:
            mism = int(m.group(2))
            if mism:
                detail = []
                for ci, si in re.findall(r"\((\d+), (\d+)\)", m.group(3)):
                    ci, si = int(ci), int(si)
                    detail.append({"scenario": {k: scs[ci][k] for k in ("k", "kinds", "actions", "cluster")}, "first_diverging_action_index": si,
                                   "implementation_showed": mouts[ci]["steps"][si] if si < len(mouts[ci]["steps"]) else None,
                                   "generator_expected": scs[ci]["expect"][si] if si < len(scs[ci]["expect"]) else None})
                ctx.tie_broken("spawn model vs real actor system (observation after every driver action)", {"mismatching_scenarios": mism, "first": detail})
    ctx.log("model tie evaluated")
    ok_prop = ctx.coq_property()
    ctx.log("coq property built: %s" % ok_prop)
    if not ok_prop:
        if not any(f.kind == "violation" for f in ctx.findings):
            ctx.proof_broken("Properties/C11.v (%s)" % getattr(ctx, "failed_at", "?"), getattr(ctx, "coq_log", ""))
        else:
            ctx.notes.append("Coq obligation broken at %s; concrete failing input reported" % getattr(ctx, "failed_at", "?"))
    ctx.coverage.update({
        "evaluations": n_steps + len(souts),
        "distinct_nontrivial": len(nontrivial) + len(souts),
        "rule": "model scenario non-trivial = at least two Spawn calls of one name; distinct by hash; every stress round/phase counts once",
        "model_scenarios": len(scs), "model_steps": n_steps, "model_action_histogram": hist, "model_wait_timeouts": timeouts,
        "model_mismatches": mism, "stress_rounds": len(souts),
        "stress_summary": [{k: so.get(k) for k in ("kind", "phase", "callers", "names", "distinct_pids", "alive", "num_actors", "errors")} for so in souts[:6]],
        "samples": [{k: scs[0][k] for k in ("k", "kinds", "actions")}, {k: scs[-1][k] for k in ("k", "kinds", "actions")}],
        "theorems": THEOREMS,
    })


META = {
    "ready": True,
    "category": "proof",
    "technique": "Rocq inductive invariants over a hand-written executable small-step model + scenario conformance and goroutine stress on real actor systems",
    "text": "Eight theorems over a small-step model of name-based spawning (per-path single flight, lookup, newPID/PreStart, actors counter, addNode with canonical-instance return, Shutdown, death watch deleting by path; any number of names, callers and stoppers, any interleaving): all callers of one flight get the same result and the counter's increments/decrements are paired (every interleaving); at most one running instance per name, every successful caller handed the registered running instance, NumActors = number of running registered actors at quiescence (C11_partial: when a name is not looked up while its tree node still holds a stopped instance); refutation witnesses for Spawn and SpawnChild racing the death watch (open finding). Every run: generated driver sequences (concurrent Spawn/SpawnNamedFromFunc/SpawnChild of the same and different names, gated PreStart, Kill, held death watch) on real actor systems compared with the Coq model after every action (vm_compute), plus goroutine stress with the property's own oracle. The model and the scenarios also cover a winner whose own context is cancelled inside PreStart (LCancel: the coalesced waiters start exactly one new flight), a waiter giving up on its own deadline while the flight continues (LAbandon), and a registry publication failing after the tree insertion (LAddFail: rollback by Shutdown, reaped by the death watch; mock registry attached to a real system).",
    "design_ref": "DESIGN.md 7/C11",
    "level_note": "Trusted: Coq kernel, the hand-written model (tied each run), x/sync singleflight contract (exercised, not proved), Go runtime for un-gated parts.",
}
