"""C40 — CRDT values survive encoding.

Proof : Properties/C40.v — decode (encode v) = the wire form of v (same observable value, same causal metadata, delta
        bookkeeping reset) for every value of every type incl. nested ORMap; merging the decoded value equals merging the
        original; encode fails exactly when a nil element/register value is present; keys round-trip with their type,
        unknown type / nil => error.
Tie   : values reachable by op programs (all types, nested maps, mixed element types, boundary uint64/int64) on the
        REAL crdt package are encoded by the REAL internal/ddata codec, marshalled to protobuf wire bytes, unmarshalled,
        decoded; the decoded value's canonical dump and delta state are compared with the Coq model's decode∘encode
        evaluated by vm_compute on the same program; keys through internal/codec incl. malformed ones.
Oracle: decoded value has the same observable value and raw state; merging it (both sides) with the other values of the
        program gives what merging the original gives.
"""
import json
import os
import random
import time

from vlib import read_jsonl, canon_hash
import crdt_util as cu



def unset_lww(d):
    return d[0] == 4 and d[2] == [0, 0, 0]


def run(ctx):
    ctx.trusted += ["protobuf marshal/unmarshal and the CBOR/proto value serializers (contract: injective on supported values, rejects nil) — exercised on every run",
                    "go/inpkg/crdt slot machine + canonical dump (harness)"]
    ctx.assumptions += ["element, key and register values are built-in primitives, CBOR-registered structs (register values) or proto messages (the serializer's domain); the nil interface is not — a never-set LWWRegister (value nil) is therefore not encodable, which the repo's own codec tests rely on",
                        "the value serializer does not map two different supported values to the same bytes"]
    rng = ctx.rng
    progs = []
    # corpus: every type once, nested maps, boundary numbers, nil values
    progs.append({"kind": "corpus", "ops": [
        {"o": "new", "d": 0, "t": "g"}, {"o": "inc", "d": 0, "s": 0, "n": 1, "v": 2 ** 64 - 1}, {"o": "inc", "d": 0, "s": 0, "n": 0, "v": 0},
        {"o": "new", "d": 1, "t": "pn"}, {"o": "dec", "d": 1, "s": 1, "n": 4, "v": 2 ** 63}, {"o": "inc", "d": 1, "s": 1, "n": 7, "v": 5},
        {"o": "new", "d": 2, "t": "f"}, {"o": "enable", "d": 2, "s": 2},
        {"o": "new", "d": 3, "t": "l"}, {"o": "lset", "d": 3, "s": 3, "n": 5, "e": 8, "ts": -2 ** 63}, {"o": "lset", "d": 3, "s": 3, "n": 6, "e": 3, "ts": 2 ** 63 - 1},
        {"o": "lset", "d": 3, "s": 3, "n": 6, "e": 0, "ts": 7}, {"o": "lset", "d": 11, "s": 3, "n": 6, "e": 12, "ts": 9},
        {"o": "new", "d": 4, "t": "mv"}, {"o": "mvset", "d": 4, "s": 4, "n": 1, "e": 4}, {"o": "mvset", "d": 5, "s": 4, "n": 4, "e": 13}, {"o": "merge", "d": 4, "a": 4, "b": 5},
        {"o": "new", "d": 6, "t": "s"}, {"o": "add", "d": 6, "s": 6, "n": 1, "e": 4}, {"o": "add", "d": 6, "s": 6, "n": 1, "e": 5}, {"o": "add", "d": 6, "s": 6, "n": 4, "e": 6},
        {"o": "add", "d": 6, "s": 6, "n": 4, "e": 3}, {"o": "rem", "d": 6, "s": 6, "e": 5}, {"o": "add", "d": 6, "s": 6, "n": 1, "e": 0},
        {"o": "new", "d": 7, "t": "m"}, {"o": "mset", "d": 7, "s": 7, "n": 1, "e": 1, "a": 0}, {"o": "mset", "d": 7, "s": 7, "n": 4, "e": 7, "a": 0},
        {"o": "new", "d": 8, "t": "mm"}, {"o": "mset", "d": 8, "s": 8, "n": 1, "e": 2, "a": 7}, {"o": "mrem", "d": 7, "s": 7, "e": 1}, {"o": "mset", "d": 8, "s": 8, "n": 4, "e": 11, "a": 7},
        {"o": "new", "d": 9, "t": "m"}, {"o": "new", "d": 10, "t": "l"}, {"o": "mset", "d": 9, "s": 9, "n": 1, "e": 1, "a": 10},
        {"o": "new", "d": 12, "t": "m"}, {"o": "mset", "d": 12, "s": 12, "n": 1, "e": 2, "a": 11}, {"o": "mset", "d": 12, "s": 12, "n": 4, "e": 4, "a": 4}]})
    n = 1500 if ctx.thorough else 150
    types = ["g", "pn", "f", "l", "mv", "s", "m", "mm", "m", "s", "mm"]
    for i in range(n):
        t = types[i % len(types)]
        p = cu.gen_random_prog(0, t, rng, rng.choice([10, 20, 35]), lww_unique=True, laws=0)
        progs.append(p)
    for i, p in enumerate(progs):
        p["id"] = i
    cu.write_progs(os.path.join(ctx.work, "c40_prog.jsonl"), progs)
    keys = []
    for ty in range(0, 7):
        for kid in ["k", "", "a/b c", "é中", "x" * 300]:
            keys.append({"id": kid, "type": ty, "mode": "enc"})
    for raw in [0, 1, 4, 7, 8, 99, -1, 2 ** 31 - 1]:
        keys.append({"id": "k", "type": raw, "mode": "raw"})
    keys.append({"id": "", "type": 0, "mode": "nil"})
    json.dump(keys, open(os.path.join(ctx.work, "c40_keys.json"), "w"))
    for fn in ("c40_out.jsonl", "c40_keys_out.json"):
        if os.path.exists(os.path.join(ctx.work, fn)):
            os.remove(os.path.join(ctx.work, fn))
    rc, out = ctx.go_test("crdt", "^TestVerifC40", ["zz_verif_C40_test.go", "zz_verif_crdtvm_test.go", "zz_verif_export_test.go"])
    outs = read_jsonl(os.path.join(ctx.work, "c40_out.jsonl"))
    kouts = json.load(open(os.path.join(ctx.work, "c40_keys_out.json"))) if os.path.exists(os.path.join(ctx.work, "c40_keys_out.json")) else []
    if rc != 0 or len(outs) != len(progs) or len(kouts) != len(keys) + 3:
        ctx.tie_broken("go-harness ddata codec", out)
    by_id = {o["id"]: o for o in outs}

    nviol, nrt, distinct, tags = {}, 0, set(), {}
    enc_nil = [0, 0]

    def viol(sig, what, rep):
        nviol[sig] = nviol.get(sig, 0) + 1
        if nviol[sig] <= 2:
            ctx.violation(sig, what, rep)

    # ---- oracle: values
    for p in progs:
        o = by_id.get(p["id"])
        if o is None:
            continue
        if o.get("panic"):
            viol("codec:panic", "panic: %s" % o["panic"], {"program": {"ops": p["ops"]}})
            continue
        for i, x in enumerate(o.get("extra") or []):
            if x is None:
                continue
            nrt += 1
            orig = x["orig"]
            rep = {"program": {"ops": p["ops"][:i + 1]}, "value": orig, "codec": x}
            tags[orig[0]] = tags.get(orig[0], 0) + 1
            if x.get("enc_err"):
                # Serialize(nil) is rejected by the value serializer: a nil element / key / register value (this includes a
                # never-set LWWRegister, whose value is the nil interface — the repo's own codec tests rely on that error)
                # is outside the serializer's domain. Any other encode error on a reachable value is a violation.
                if "message is nil" in x["enc_err"]:
                    enc_nil[0] += 1
                    if unset_lww(orig) or ("LWWRegister value" in x["enc_err"] and not lww_was_set_nil(p, i)):
                        enc_nil[1] += 1
                else:
                    viol("EncodeCRDT:unexpected-error", "EncodeCRDT failed: %s" % x["enc_err"], rep)
                continue
            if x.get("dec_err") or x.get("wire_err"):
                viol("DecodeCRDT:error-on-own-encoding", "decoding an encoded value failed: %s%s" % (x.get("dec_err", ""), x.get("wire_err", "")), rep)
                continue
            distinct.add(canon_hash(orig))
            if x["rt"] != orig:
                viol("codec:round-trip-changes-value:%s" % orig[0], "decode(encode v) differs from v: %s -> %s" % (orig, x["rt"]), rep)
            if not x["merge_ok"]:
                viol("codec:decoded-merges-differently:%s" % orig[0], "merging the decoded value differs from merging the original", rep)
    # ---- oracle: keys
    for c, o in zip(keys, kouts):
        rep = {"key_case": c, "got": o}
        if c["mode"] == "enc":
            if o["err"] or o["got_id"] != c["id"] or o["got_type"] != c["type"]:
                viol("codec:key-round-trip", "key (%r,%d) decoded as (%r,%d,err=%s)" % (c["id"], c["type"], o["got_id"], o["got_type"], o["err"]), rep)
        elif c["mode"] == "raw":
            valid = 1 <= c["type"] <= 7
            if valid and (o["err"] or o["got_type"] != c["type"] - 1 or o["got_id"] != c["id"]):
                viol("codec:key-decode", "valid proto key type %d rejected or mis-decoded" % c["type"], rep)
            if not valid and not o["err"]:
                viol("codec:unknown-key-type-accepted", "proto key with data type %d decoded without error" % c["type"], rep)
        elif not o["err"]:
            viol("codec:nil-key-accepted", "nil key decoded without error", rep)
    for o in kouts[len(keys):]:
        if not o["err"]:
            viol("codec:%s-accepted" % o["mode"], "%s did not produce an error" % o["mode"], {"case": o})

    # ---- model vs implementation
    t0 = time.time()
    budget = 40000 if ctx.thorough else 3000
    sample = [p for p in progs if p["kind"] == "corpus"]
    rest = [p for p in progs if p["kind"] != "corpus" and not by_id.get(p["id"], {}).get("panic")]
    random.Random(ctx.seed * 17 + 3).shuffle(rest)
    tot = sum(len(p["ops"]) for p in sample)
    for p in rest:
        if tot + len(p["ops"]) <= budget:
            sample.append(p)
            tot += len(p["ops"])
    nch = 8 if ctx.thorough else 3
    chunks = [sample[i::nch] for i in range(nch)]

    def want_tree(x):
        if x is None:
            return []
        if x.get("enc_err"):
            return [0]
        if x.get("dec_err") or x.get("wire_err"):
            return [2]
        return [1, [x["rt"], x["aux"]]]

    def body_of(chunk):
        its = []
        for p in chunk:
            o = by_id.get(p["id"])
            if not o or o.get("panic"):
                continue
            its.append("(%d%%nat, [%s], [%s])" % (p["id"], "; ".join(cu.op_coq(x) for x in p["ops"]),
                                                 "; ".join(cu.tree(want_tree(x)) for x in (o.get("extra") or []))))
        return """From stdpp Require Import gmap.
From Coq Require Import ZArith.
From GV Require Import C38.Model C38.Exec C40.Model.
Definition cases : list (nat * list op * list tree) := [%s].
Definition bad := omap (fun c => match c with (i, p, w) => match check_rt p w with Some k => Some (i, k) | None => None end end) cases.
Definition summary := (length cases, length bad, firstn 5 bad).
Eval vm_compute in summary.
""" % ";\n ".join(its)

    mism, compared = [], 0
    import concurrent.futures as cf
    ok_model, mout = ctx.coq_build(["theories/C40/Model.vo"])
    if not ok_model:
        ctx.tie_broken("C40/Model.v (model) does not compile", mout)
    else:
        def ev(k):
            return k, ctx.coq_eval("cases_C40_%d" % k, body_of(chunks[k]), timeout=1500)
        with cf.ThreadPoolExecutor(max_workers=nch) as ex:
            for k, (rc2, o2) in ex.map(ev, range(nch)):
                s = cu.parse_summary(o2)
                if rc2 != 0 or s is None:
                    ctx.tie_broken("model evaluation (cases_C40_%d.v did not evaluate)" % k, o2)
                    continue
                compared += s[0]
                mism += s[2]
    if mism:
        pid, opi = mism[0]
        p = [x for x in progs if x["id"] == pid][0]
        ctx.tie_broken("model-vs-implementation codec round trip", {"mismatching_programs": len(mism), "first": {"ops": p["ops"][:opi + 1], "op_index": opi,
                       "implementation": (by_id[pid].get("extra") or [None] * (opi + 1))[opi]}})
    ctx.log("model tie: %d programs (%d ops) in %.1fs, %d mismatches" % (compared, tot, time.time() - t0, len(mism)))

    if not ctx.coq_property():
        if not any(f.kind == "violation" for f in ctx.findings):
            ctx.proof_broken("Properties/C40.v (%s)" % getattr(ctx, "failed_at", "?"), getattr(ctx, "coq_log", ""))
        else:
            ctx.notes.append("Coq obligation broken at %s; concrete failing input reported" % getattr(ctx, "failed_at", "?"))

    ctx.coverage.update({
        "evaluations": nrt + len(kouts),
        "distinct_nontrivial": len(distinct),
        "rule": "a round trip = one value written by an op program, encoded, marshalled, unmarshalled, decoded; non-trivial = encoding succeeded; distinct by hash of (type, observable value, raw state)",
        "programs": len(progs), "round_trips": nrt, "by_type_tag": tags, "key_cases": len(kouts),
        "model_compared_programs": compared, "model_compared_ops": tot, "model_mismatches": len(mism),
        "oracle_violation_counts": nviol, "encode_rejected_nil_value": enc_nil[0], "of_which_never_set_LWWRegister": enc_nil[1],
        "samples": [{"ops": p["ops"][:10]} for p in progs[1:3]] + keys[:2],
        "theorems": THEOREMS,
    })


def lww_was_set_nil(p, i):
    """the user explicitly Set(nil): outside the serializer's domain"""
    return any(op["o"] == "lset" and op.get("e", 0) == 0 for op in p["ops"][:i + 1])


THEOREMS = ["C40_roundtrip_level0", "C40_roundtrip_ormap", "C40_roundtrip_ormap_instances", "C40_encode_fails_only_on_nil",
            "C40_decoded_merges_like_original", "C40_key_roundtrip", "C40_unknown_rejected"]

META = {
    "ready": True,
    "category": "proof",
    "technique": "Rocq proof of decode∘encode over an executable model of the ddata codec + differential round trips through the real codec and protobuf wire format",
    "text": "decode(encode v) = wire form of v (same value, same causal metadata) proved for all values of all seven types incl. nested ORMap; merging the decoded value equals merging the original; keys round-trip with their type; unknown type/oneof and nil rejected.",
    "design_ref": "DESIGN.md 7/C40",
    "level_note": "Trusted: Coq kernel, protobuf/CBOR libraries (contract tested each run), the hand-written model (tied by differential execution).",
}
