"""C09 — stopping an actor stops its whole subtree, children first; the actor tree stays consistent.

Proof:  Properties/C09.v over C09/Model.v (M-TREE, mirrors actor/pid_tree.go) and C09/StopModel.v
        (Shutdown/doStop/freeChildren + SpawnChild + death watch as a small-step system).
Tie:    (S) generated tree-op sequences run on the real `tree` in-package, the complete observable
        state after every op compared with the Coq model (cases.v + vm_compute);
        (A) scripted stop/spawn scenarios on real actor systems (PostStop/PreStart gated by the
        harness so the interleaving is the scripted one) compared with the small-step model run on
        the same label sequence.
Oracle: PostStop order per ancestor chain, exactly-once, post-stop IsRunning/ActorOf/Children sweep.
"""
import json
import os
import re

from vlib import read_jsonl, canon_hash

import c09_util as U


def run(ctx):
    ctx.trusted += ["hand-written Gallina models C09/Model.v, C09/StopModel.v (tied each run: tree ops state-by-state, stop scenarios label-by-label)",
                    "Go runtime scheduler for the un-gated parts of a scenario (the harness waits for the scripted blocking points)"]
    ctx.assumptions += ["tree ops: ids are case-sensitive distinct strings (PID.Equals folds case; not exercised)",
                        "attach below the node's own subtree is never driven (deleteNode would not terminate); no caller does it",
                        "stop model: restarts are not part of the small-step system (C09_partial says so)"]
    stats = {}
    U.both_ties(ctx, stats)

    ok_prop = ctx.coq_property()
    ctx.log("coq property built: %s" % ok_prop)
    if not ok_prop:
        if not any(f.kind == "violation" for f in ctx.findings):
            ctx.proof_broken("Properties/C09.v (%s)" % getattr(ctx, "failed_at", "?"), getattr(ctx, "coq_log", ""))
        else:
            ctx.notes.append("Coq obligation broken at %s; concrete failing input reported" % getattr(ctx, "failed_at", "?"))

    ctx.coverage.update(stats)
    ctx.coverage.update({
        "evaluations": stats.get("tree_steps", 0) + stats.get("stop_steps", 0),
        "distinct_nontrivial": stats.get("tree_distinct_nontrivial", 0) + stats.get("stop_distinct_nontrivial", 0),
        "rule": "tree case non-trivial = at least 3 nodes registered at some point and at least one deleteNode of a node with a live child; "
                "stop scenario non-trivial = a stop of an actor with at least one running descendant; distinct by hash of the canonical case",
        "theorems": U.THEOREMS,
    })


META = {
    "ready": True,
    "category": "proof",
    "technique": "Rocq inductive invariants over hand-written executable models + state-by-state differential against the real tree and label-by-label scenario conformance on real actor systems",
    "text": "Fifteen theorems. Tree (actor/pid_tree.go as an executable pointer-faithful model): the consistency invariant (counter = registered nodes, name index sound, watchers/watchees mutually inverse and over registered nodes only, root registered) holds after EVERY finite sequence of tree operations. Stop protocol (Shutdown/doStop/freeChildren + SpawnChild + death watch as a small-step system, any number of actors and goroutines, any interleaving): lifecycle events at most once, a stopped actor had its PostStop, children-first along the children snapshots and stopped-on-return — unguarded for the repaired freeChildren (fix 73f6267), on race-free executions for the previous code, and, beyond the snapshots, EVERY descendant by the spawn relation whose SpawnChild has returned has completed PostStop once its ancestor's PostStop completed (C09_all_descendants_stopped_*), with refutation witnesses for the concurrent-stop race and for SpawnChild racing the parent's stop (open finding); the driver-level function the tie evaluates is proved to take only steps of the small-step system. Every run re-ties both models to /repo: generated tree-op sequences on the real tree (whole observable state after every op), scripted stop/spawn scenarios on real actor systems with PostStop/PreStart gated by the harness (observation after every driver action), both compared with the Coq models by vm_compute, plus the property's own oracle on the recorded events. Scenarios also restart running subtrees at quiet points (the model's DRestart is the identity on what the harness observes) and stop them afterwards; an oracle checks that no actor whose PostStop completed is still registered at the end of a script.",
    "design_ref": "DESIGN.md 7/C09",
    "level_note": "Trusted: Coq kernel, the hand-written models (tied state-by-state each run), Go runtime for the un-gated parts. Not modelled: restarts, suspension, PostStop returning an error (stated in assumptions).",
}
