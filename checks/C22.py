"""C22 — client load balancers always pick a configured node.

Proof: Properties/C22.v over Gen/C22.v (index and next-cursor expressions that goq regenerates from
       client/round_robin.go RoundRobin.Next on every run), Lib/RRCursor.v, C22/Model.v (RoundRobin,
       LeastLoad, Random as step functions), C22/Proofs.v.
Tie:   the real balancers are driven in-package through generated histories of Set / Next / cursor
       presets (the cursor field is set to stale and near-maximum values instead of calling Next 2^32
       times); after every op the returned node and the cursor field (round robin) / node order
       (least load) are compared with the Coq model evaluated by vm_compute on the same histories.
Oracle (independent of the model): every Next returns a member of the list in force, no panic;
       consecutive round-robin calls advance by one slot cyclically, the k-th call on a fresh balancer
       returns nodes[(k-1) mod n]; concurrent goroutines see an exactly even distribution; while one
       goroutine keeps replacing the pool (64 <-> 1 nodes) concurrent Next calls never panic and return
       a node of one of the two pools (all three balancers).
"""
import json
import os
import re

from vlib import read_jsonl, canon_hash

U32 = 2 ** 32


def gen_rr_cases(ctx):
    rng = ctx.rng
    cases = []
    ident = [0]

    def fresh(n):
        ids = list(range(ident[0], ident[0] + n))
        ident[0] += n
        return ids

    def nexts(k):
        return [{"Op": "next"} for _ in range(k)]

    # corpus: the magnitudes at which a free-running uint32 counter went out of range / broke the cycle
    for n in (3, 4, 1, 7):
        ident[0] = 0
        cases.append({"Kind": "rr", "Ops": [{"Op": "set", "Nodes": fresh(n)}] + nexts(2 * n + 1) +
                      [{"Op": "preset", "V": 2, "FromMax": True}] + nexts(2 * n + 3) +
                      [{"Op": "preset", "V": 0, "FromMax": True}] + nexts(n + 2)})
    sizes = [1, 2, 3, 4, 5, 6, 7, 8, 9, 16, 17, 31]
    n_cases = 300 if ctx.thorough else 60
    for _ in range(n_cases):
        ident[0] = 0
        n = rng.choice(sizes)
        ops = [{"Op": "set", "Nodes": fresh(n)}]
        # a fresh balancer first: k-th call must return nodes[(k-1) mod n]
        ops += nexts(rng.randint(1, 3 * n + 2))
        for _ in range(rng.randint(1, 5)):
            r = rng.random()
            if r < 0.45:
                if rng.random() < 0.6:
                    ops.append({"Op": "preset", "V": rng.choice([0, 1, 2, 3, n - 1, n, n + 1]) % U32, "FromMax": True})
                else:
                    v = rng.choice([0, 1, n - 1, n, n + 1, 2 * n, 2 ** 31 - 1, 2 ** 31, 2 ** 31 + 1, rng.randrange(U32)])
                    ops.append({"Op": "preset", "V": v, "FromMax": False})
            elif r < 0.8:
                n = rng.choice(sizes)  # the node list is replaced: the cursor may now be stale (>= n)
                ops.append({"Op": "set", "Nodes": fresh(n)})
            ops += nexts(rng.randint(1, 2 * n + 3))
        cases.append({"Kind": "rr", "Ops": ops})
    return cases


WEIGHTS = ["nan", "-inf", "-1e300", "-2.5", "-1", "-0", "0", "1e-300", "0.5", "1", "2", "3", "100", "1e300", "inf"]


def wkey(s):
    """rank of a weight in cmp.Compare's order: NaN < -Inf < ... < -0 == +0 < ... < +Inf"""
    if s == "nan":
        return -2
    if s == "-inf":
        return -1
    if s == "inf":
        return 10 ** 9
    if s == "-0":
        s = "0"
    return sorted({float(x) for x in WEIGHTS if x not in ("nan", "inf", "-inf", "-0")}).index(float(s))


def gen_ll_cases(ctx):
    rng = ctx.rng
    cases = []
    n_cases = 200 if ctx.thorough else 40
    # corpus: all weights NaN / all equal / negative and infinite weights
    cases.append({"Kind": "ll", "Ops": [{"Op": "set", "Nodes": [0, 1, 2]},
                                        {"Op": "next", "W": {"0": "nan", "1": "nan", "2": "nan"}},
                                        {"Op": "next", "W": {"0": "inf", "1": "inf", "2": "inf"}},
                                        {"Op": "next", "W": {"0": "-1", "1": "-inf", "2": "nan"}},
                                        {"Op": "next", "W": {"0": "0", "1": "-0", "2": "0"}}]})
    for _ in range(n_cases):
        base = 0
        n = rng.choice([1, 2, 3, 4, 5, 8, 13])
        ids = list(range(base, base + n))
        ops = [{"Op": "set", "Nodes": ids}]
        pool = WEIGHTS if rng.random() < 0.5 else rng.sample(WEIGHTS, 3)
        for _ in range(rng.randint(2, 8)):
            if rng.random() < 0.15:
                base += n
                n = rng.choice([1, 2, 3, 5])
                ids = list(range(base, base + n))
                ops.append({"Op": "set", "Nodes": ids})
            w = {}
            for i in ids:
                if rng.random() < 0.7:
                    w[str(i)] = rng.choice(pool)
            ops.append({"Op": "next", "W": w})
        cases.append({"Kind": "ll", "Ops": ops})
    return cases


def coq_nat_list(xs):
    return "[" + "; ".join("%d%%nat" % x for x in xs) + "]"


def run(ctx):
    ctx.trusted += ["tools/goq translator (its output is evaluated against the real Next on every history)",
                    "math/rand/v2 IntN(n) returns a value in [0,n) (Random balancer)",
                    "slices.SortStableFunc is a stable sort (LeastLoad); weights are read once per comparison and assumed not to change during one Next call"]
    ctx.assumptions += ["node list length fits a uint32 (0 < n < 2^32)", "Next is only called with a non-empty node list (Set with no nodes is outside 'configured nodes')"]
    ok, msg = ctx.goq("C22", "C22")
    if not ok:
        ctx.tie_broken("goq-translation client/round_robin.go RoundRobin.Next (index / stored cursor)", msg)

    rr = gen_rr_cases(ctx)
    ll = gen_ll_cases(ctx)
    rnd = [{"Kind": "rnd", "Nodes": list(range(n)), "Calls": 400 * n} for n in (1, 2, 3, 5, 8)]
    conc = [{"Kind": "rrconc", "Nodes": list(range(n)), "G": g, "Calls": n * (20000 if ctx.thorough else 4000)} for (n, g) in ((3, 8), (5, 4), (7, 16))]
    ms = 3000 if ctx.thorough else 600
    flip = [{"Kind": "flip", "Balancer": bal, "Large": 64, "Small": 1, "Readers": 8, "Millis": ms} for bal in ("rnd", "rr", "ll")]
    cases = rr + ll + rnd + conc + flip
    with open(os.path.join(ctx.work, "c22_in.jsonl"), "w") as f:
        for c in cases:
            f.write(json.dumps(c) + "\n")
    outp = os.path.join(ctx.work, "c22_out.jsonl")
    if os.path.exists(outp):
        os.remove(outp)
    rc, out = ctx.go_test("client", "^TestVerifC22", ["zz_verif_C22_test.go"])
    outs = read_jsonl(outp)
    if rc != 0 or len(outs) != len(cases):
        ctx.tie_broken("go-harness client balancers", out)
        if len(outs) != len(cases):
            outs = []

    nviol = [0]

    def viol(sig, what, replay):
        if nviol[0] < 6:
            ctx.violation(sig, what, replay)
        nviol[0] += 1

    # ------------------------------------------------------------ oracle on the implementation
    n_next = 0
    nontrivial = set()
    hist = {"set": 0, "next": 0, "preset": 0}
    cursor_bits = None
    flip_runs = []
    for ci, (c, o) in enumerate(zip(cases, outs)):
        if c["Kind"] == "rr":
            cursor_bits = o.get("Bits", 0)
            nodes, prev_idx, fresh_k = [], None, 0  # fresh_k: number of Next calls since the first Set of a fresh balancer (None once disturbed)
            seen_set = False
            for si, (op, st) in enumerate(zip(c["Ops"], o.get("Steps", []))):
                hist[op["Op"]] += 1
                if op["Op"] == "set":
                    nodes = op["Nodes"]
                    prev_idx = None
                    if seen_set:
                        fresh_k = None
                    seen_set = True
                elif op["Op"] == "preset":
                    prev_idx = None
                    fresh_k = None
                else:
                    n_next += 1
                    n = len(nodes)
                    rep = {"balancer": "RoundRobin", "ops_prefix": c["Ops"][:si + 1], "returned": st["Ret"], "panic": st.get("Panic", ""),
                           "note": "preset puts V (or max-V when FromMax) into the cursor field in-package instead of calling Next that many times"}
                    if st["Ret"] == -1:
                        viol("RoundRobin.Next:panic", "RoundRobin.Next panicked (%s) with %d configured nodes" % (st.get("Panic"), n), rep)
                        break
                    if st["Ret"] not in nodes:
                        viol("RoundRobin.Next:not-configured", "RoundRobin.Next returned a node outside the %d configured nodes" % n, rep)
                        break
                    idx = nodes.index(st["Ret"])
                    if fresh_k is not None:
                        fresh_k += 1
                        if idx != (fresh_k - 1) % n:
                            viol("RoundRobin.Next:cyclic-order", "call %d on a fresh RoundRobin with %d nodes returned node index %d, want %d" % (fresh_k, n, idx, (fresh_k - 1) % n), rep)
                            break
                    if prev_idx is not None and idx != (prev_idx + 1) % n:
                        viol("RoundRobin.Next:cyclic-order", "consecutive RoundRobin.Next calls returned node indices %d then %d of %d (not cyclic)" % (prev_idx, idx, n), rep)
                        break
                    prev_idx = idx
                    nontrivial.add(canon_hash(("rr", n, idx, st.get("Cursor"))))
        elif c["Kind"] == "ll":
            nodes = []
            for si, (op, st) in enumerate(zip(c["Ops"], o.get("Steps", []))):
                if op["Op"] == "set":
                    nodes = op["Nodes"]
                    continue
                n_next += 1
                rep = {"balancer": "LeastLoad", "ops_prefix": c["Ops"][:si + 1], "returned": st["Ret"], "panic": st.get("Panic", "")}
                if st["Ret"] == -1:
                    viol("LeastLoad.Next:panic", "LeastLoad.Next panicked (%s) with %d configured nodes" % (st.get("Panic"), len(nodes)), rep)
                    break
                if st["Ret"] not in nodes:
                    viol("LeastLoad.Next:not-configured", "LeastLoad.Next returned a node outside the %d configured nodes" % len(nodes), rep)
                    break
                if sorted(st.get("Order") or []) != sorted(nodes):
                    viol("LeastLoad.Next:node-list-changed", "after LeastLoad.Next the balancer's node list %s is no longer a permutation of the configured nodes %s" % (st.get("Order"), nodes), rep)
                    break
                nontrivial.add(canon_hash(("ll", len(nodes), json.dumps(op["W"], sort_keys=True))))
        elif c["Kind"] == "rnd":
            cnt = o.get("Counts", {})
            n_next += sum(cnt.values())
            bad = {k: v for k, v in cnt.items() if int(k) not in c["Nodes"]}
            if bad:
                viol("Random.Next:not-configured", "Random.Next with %d nodes: %s calls panicked (-1) or returned an unknown node (-2)" % (len(c["Nodes"]), bad),
                     {"balancer": "Random", "nodes": len(c["Nodes"]), "calls": c["Calls"], "counts": cnt})
            nontrivial.add(canon_hash(("rnd", len(c["Nodes"]))))
        elif c["Kind"] == "rrconc":
            cnt = o.get("Counts", {})
            n_next += sum(cnt.values())
            total = c["G"] * c["Calls"]
            want = total // len(c["Nodes"])
            if any(cnt.get(str(i), 0) != want for i in c["Nodes"]) or sum(cnt.values()) != total or len(cnt) != len(c["Nodes"]):
                viol("RoundRobin.Next:concurrent-distribution", "%d goroutines x %d RoundRobin.Next calls over %d nodes: per-node counts %s, want %d each" % (c["G"], c["Calls"], len(c["Nodes"]), cnt, want),
                     {"balancer": "RoundRobin", "goroutines": c["G"], "calls_each": c["Calls"], "nodes": len(c["Nodes"]), "counts": cnt})
            nontrivial.add(canon_hash(("rrconc", len(c["Nodes"]), c["G"])))
        elif c["Kind"] == "flip":
            name = {"rnd": "Random", "rr": "RoundRobin", "ll": "LeastLoad"}[c["Balancer"]]
            n_next += o.get("Calls", 0)
            flip_runs.append({"balancer": name, "next_calls": o.get("Calls", 0), "pool_replacements": o.get("Flips", 0), "panics": o.get("Panics", 0)})
            rep = {"balancer": name, "scenario": "one goroutine alternates Set(%d nodes) / Set(%d node) while %d goroutines call Next for %d ms" % (c["Large"], c["Small"], c["Readers"], c["Millis"]),
                   "next_calls": o.get("Calls"), "pool_replacements": o.get("Flips"), "first_panic": o.get("FirstPanic"), "hung": o.get("Hung")}
            if o.get("Panics") or o.get("Hung"):
                viol("%s.Next:panic-while-pool-replaced" % name, "%s: %s" % (name, o.get("FirstPanic") or o.get("Hung")), rep)
            elif o.get("Foreign"):
                viol("%s.Next:not-configured-while-pool-replaced" % name, "%s.Next returned a node of neither configured pool while Set was replacing the pool" % name, rep)
            if o.get("Calls", 0) > 100 and o.get("Flips", 0) > 100:
                nontrivial.add(canon_hash(("flip", name)))

    # ------------------------------------------------------------ model vs implementation (vm_compute)
    ok_gen, gen_out = ctx.coq_build(["theories/C22/Model.vo"]) if ok else (False, "goq failed")
    mism = None
    if ok_gen and outs:
        rr_terms, ll_terms = [], []
        compare_cursor = cursor_bits == 32
        for c, o in zip(cases, outs):
            if c["Kind"] == "rr":
                ops_s, obs_s = [], []
                usable = True
                for op, st in zip(c["Ops"], o.get("Steps", [])):
                    if op["Op"] == "set":
                        ops_s.append("RRSet " + coq_nat_list(op["Nodes"]))
                        obs_s.append("(None, %d)" % st["Cursor"])
                    elif op["Op"] == "preset":
                        v = (U32 - 1 - op["V"]) if op["FromMax"] else op["V"]
                        if not compare_cursor:
                            usable = False
                        ops_s.append("RRPreset %d" % v)
                        obs_s.append("(None, %d)" % st["Cursor"])
                    else:
                        ops_s.append("RRNext")
                        r = "Some (Some %d%%nat)" % st["Ret"] if st["Ret"] >= 0 else "Some None"
                        obs_s.append("(%s, %d)" % (r, st["Cursor"]))
                if len(c["Ops"]) != len(o.get("Steps", [])):
                    continue  # cut short by a panic that left the mutex locked: reported by the oracle
                if usable:
                    rr_terms.append("([%s], [%s])" % ("; ".join(ops_s), "; ".join(obs_s)))
            elif c["Kind"] == "ll":
                order = []
                for op, st in zip(c["Ops"], o.get("Steps", [])):
                    if op["Op"] == "set":
                        order = op["Nodes"]
                        wcur = {}
                        continue
                    if st["Ret"] < 0:
                        break
                    wcur.update(op["W"])
                    mx = max(order) + 1
                    ranks = [wkey(wcur.get(str(i), "0")) if i in order else 0 for i in range(mx)]
                    ll_terms.append("([%s], %s, %d%%nat, %s)" % ("; ".join("(%d)" % r for r in ranks), coq_nat_list(order), st["Ret"], coq_nat_list(st.get("Order") or [])))
                    order = st.get("Order") or order
        body = """From Coq Require Import ZArith List Bool. Import ListNotations.
From GV Require Import Lib.GoInt Gen.C22 C22.Model.
Open Scope Z_scope.
Definition oeq (a b : option (option nat)) : bool :=
  match a, b with
  | None, None => true
  | Some None, Some None => true
  | Some (Some x), Some (Some y) => Nat.eqb x y
  | _, _ => false
  end.
Definition cmp_cursor : bool := %s.
Fixpoint trace_eq (m : list (list nat * option (option nat) * Z)) (o : list (option (option nat) * Z)) : bool :=
  match m, o with
  | [], [] => true
  | (_, mo, mc) :: m', (oo, oc) :: o' => oeq mo oo && (negb cmp_cursor || (mc =? oc)) && trace_eq m' o'
  | _, _ => false
  end.
Definition rr_cases : list (list rr_op * list (option (option nat) * Z)) := [%s].
Definition rr_bad := filter (fun c => negb (trace_eq (rr_run rr_init (fst c)) (snd c))) rr_cases.
Definition nl_eq (a b : list nat) : bool := if list_eq_dec Nat.eq_dec a b then true else false.
Definition ll_cases : list (list Z * list nat * nat * list nat) := [%s].
Definition ll_ret_bad := filter (fun c => match c with (ws, pre, ret, post) =>
   negb (match snd (ll_next (weight_of ws) pre) with Some v => Nat.eqb v ret | None => false end) end) ll_cases.
Definition ll_order_same := filter (fun c => match c with (ws, pre, ret, post) => nl_eq (fst (ll_next (weight_of ws) pre)) post end) ll_cases.
Definition summary := (length rr_cases, length rr_bad, length ll_cases, length ll_ret_bad, length ll_order_same,
   map (fun c => fst c) (firstn 1 rr_bad), firstn 1 ll_ret_bad).
Eval vm_compute in summary.
""" % ("true" if compare_cursor else "false", ";\n ".join(rr_terms), ";\n ".join(ll_terms))
        rc2, o2 = ctx.coq_eval("cases_C22", body)
        flat = " ".join(o2.split())
        m_ = re.search(r"= \((\d+)%nat, (\d+)%nat, (\d+)%nat, (\d+)%nat, (\d+)%nat, (\[.*\]), (\[.*\])\)", flat)
        if rc2 != 0 or not m_:
            ctx.tie_broken("model-vs-implementation (cases_C22.v did not evaluate)", o2)
        else:
            mism = {"rr_histories": int(m_.group(1)), "rr_mismatch": int(m_.group(2)), "ll_calls": int(m_.group(3)),
                    "ll_returned_node_mismatch": int(m_.group(4)), "ll_order_equal_to_stable_sort": int(m_.group(5))}
            if mism["rr_mismatch"]:
                ctx.tie_broken("RoundRobin model (Gen/C22.v + C22/Model.v) vs client.RoundRobin", {"mismatching_histories": mism["rr_mismatch"], "first": m_.group(6)[:1500]})
            if mism["ll_returned_node_mismatch"]:
                ctx.tie_broken("LeastLoad model (stable minimum) vs client.LeastLoad", {"mismatching_calls": mism["ll_returned_node_mismatch"], "first": m_.group(7)[:1500]})
            if cursor_bits != 32:
                ctx.tie_broken("RoundRobin cursor field `next` is not a uint32 any more (goq spec and presets assume it)", {"bits": cursor_bits})
    elif ok and not ok_gen:
        ctx.tie_broken("Gen/C22.v or C22/Model.v does not compile", gen_out)

    # ------------------------------------------------------------ theorems
    if ok:
        if not ctx.coq_property():
            if not any(f.kind == "violation" for f in ctx.findings):
                ctx.proof_broken("Properties/C22.v (%s)" % getattr(ctx, "failed_at", "?"), getattr(ctx, "coq_log", ""))
            else:
                ctx.notes.append("Coq obligation broken at %s; concrete failing input reported" % getattr(ctx, "failed_at", "?"))

    ctx.coverage.update({
        "evaluations": n_next,
        "distinct_nontrivial": len(nontrivial),
        "rule": "histories of Set/Next/cursor-preset on real balancers (sizes 1..31; presets: 0,1,n-1,n,n+1,2n,2^31-1,2^31,2^31+1, max-0..3, max-(n±1), random); "
                "non-trivial = a Next call on a non-empty list; distinct by (balancer, list size, returned index, cursor after) for round robin, by (size, weight assignment) for least load",
        "samples": [cases[0], rr[len(rr) // 2], ll[1], (outs[0] if outs else None)],
        "op_histogram": hist, "rr_histories": len(rr), "ll_histories": len(ll), "random_calls": sum(c["Calls"] for c in rnd),
        "concurrent_runs": [{"nodes": len(c["Nodes"]), "goroutines": c["G"], "calls_each": c["Calls"]} for c in conc],
        "pool_replacement_races": flip_runs,
        "cursor_field_bits": cursor_bits, "model_vs_impl": mism,
        "theorems": ["C22_random_history_always_a_configured_node", "C22_rr_index_in_range", "C22_rr_kth_call_index", "C22_rr_cyclic_from_any_cursor", "C22_rr_each_slot_once_per_round",
                     "C22_rr_in_range_under_resizing", "C22_rr_always_a_configured_node", "C22_rr_cyclic_order",
                     "C22_leastload_always_a_configured_node", "C22_leastload_first_minimum", "C22_random_always_a_configured_node"],
    })


META = {
    "ready": True,
    "category": "proof",
    "technique": "Rocq proof over goq-translated Go source + hand model, differential op-sequence conformance with in-package cursor presets",
    "text": "Eleven theorems: for every uint32 cursor (also stale) and every pool size 1<=n<2^32 the round-robin index and the stored cursor are in [0,n); the k-th call of a fresh balancer uses (k-1) mod n for ALL k; cyclic order from any cursor; each slot once per n calls; in range under resizing; over every history of Set/Next/arbitrary cursor each Next returns a member of the list in force (RoundRobin, LeastLoad incl. minimum weight and stability, Random under the IntN contract). Index and cursor-update expressions are regenerated by goq from client/round_robin.go on every run; real balancers are driven through generated histories with the cursor preset in-package to stale and near-2^32 values and compared step by step (returned node, cursor, node order) with the Coq model; independent oracle incl. a goroutine stress for exact even distribution and, for all three balancers, real goroutines calling Next while another one keeps replacing the pool (64 <-> 1 nodes): no panic, every result in one of the two pools. Lock discipline in the model: Set and Next are each one atomic step under the mutex, so the history theorems cover any number of goroutines; a Next split into two critical sections is refuted in Coq (split_next_leaves_the_pool).",
    "design_ref": "DESIGN.md 7/C22",
    "level_note": "Trusted: Coq kernel, goq (validated differentially each run), rand.IntN range contract, slices.SortStableFunc stability. Weights are assumed constant during one LeastLoad.Next call.",
}
