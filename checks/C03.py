"""C03 — messages from one sender are processed in the order they were sent (FIFO mailboxes, BatchTell,
stash/unstash).

Proof:  Properties/C03.v (C03/Model.v actor + stash model, C03/Proofs.v: sender programs composed with the
        reservation-queue mailbox of C04/Contract.v, any number of senders, any interleaving).
Tie:    (S) op sequences (sends, BatchTell runs, stash on/off, unstash one/all) queued behind a gate message
            on REAL actors with each FIFO mailbox; the processing log is compared with C03/Model.v evaluated
            by vm_compute on the same sequences;
        (T) logical sender threads over the instrumented mailbox sources (several messages per sender),
            context-bounded schedule enumeration (shared with C04);
        real actors under concurrent senders (Tell, BatchTell, PID.Tell, PID.BatchTell) with stash phases.
Oracle: (sender, seq) monotone per sender; stashed messages re-delivered exactly once, oldest first.
"""
import json
import os
import re

import vlib
from vlib import read_jsonl, zlit
import mbox_util as mu

FIFO_KINDS = ["unbounded", "segmented", "bounded", "nbbounded", "fair"]
FAIR_STALL = "UnboundedFairMailbox:sender-deactivated-while-producer-mid-link"
SEG_REUSE = "segmented:pooled-segment-reuse:stale-tail-producer"


def E(i, s, p=0, b=0):
    return [0, i, s, p, b]


D = [1, 0, 0, 0, 0]


def gen_gate_cases(ctx):
    rng = ctx.rng
    cases = []
    n = 30 if ctx.thorough else 9
    cdir = os.path.join(vlib.VERIF, "corpus", "C03")
    if os.path.isdir(cdir):
        for f in sorted(os.listdir(cdir)):
            if f.endswith(".jsonl"):
                cases += [c for c in read_jsonl(os.path.join(cdir, f)) if "Ops" in c]
    for kind in FIFO_KINDS:
        for j in range(n):
            ops, nid = [], 1
            length = rng.choice([8, 15, 30, 60]) if j % 4 else 300  # 300: crosses a 256-slot segment
            stashy = j % 3 != 0
            i = 0
            while i < length:
                r = rng.random()
                if stashy and r < 0.10:
                    ops.append([1, 0])
                elif stashy and r < 0.18:
                    ops.append([2, 0])
                elif stashy and r < 0.25:
                    ops.append([3, 0])
                elif stashy and r < 0.32:
                    ops.append([4, 0])
                elif r < 0.45:
                    k = rng.randrange(2, 7)
                    ops.append([7, k])
                    for _ in range(k):
                        ops.append([0, nid]); nid += 1
                    i += k
                else:
                    ops.append([0, nid]); nid += 1
                i += 1
            cap = 4096 if kind in ("bounded", "nbbounded") else 0
            cases.append({"K": kind, "C": cap, "Ops": ops})
    return cases


def gen_driver_cases(ctx):
    """sender programs mixing Tell, BatchTell and Request (one sender actor, one handler invocation),
    with and without stash phases at the receiver"""
    rng = ctx.rng
    cases = []
    n = 16 if ctx.thorough else 5
    # corpus: the shortest mixed programs
    cases.append({"K": "unbounded", "C": 0, "Ops": [[0, 1], [0, 2], [8, 3], [0, 4], [8, 5], [0, 6]]})
    cases.append({"K": "unbounded", "C": 0, "Ops": [[7, 3], [0, 1], [0, 2], [0, 3], [8, 4], [8, 5], [7, 2], [0, 6], [0, 7]]})
    for kind in FIFO_KINDS:
        for j in range(n):
            ops, nid = [], 1
            length = rng.choice([6, 12, 25, 50])
            stashy = j % 2 == 1
            p_req = rng.choice([0.15, 0.3, 0.5])
            i = 0
            while i < length:
                r = rng.random()
                if stashy and r < 0.08:
                    ops.append([1, 0])
                elif stashy and r < 0.14:
                    ops.append([2, 0])
                elif stashy and r < 0.20:
                    ops.append([3, 0])
                elif stashy and r < 0.25:
                    ops.append([4, 0])
                elif r < 0.25 + p_req * 0.75:
                    ops.append([8, nid]); nid += 1
                elif r < 0.25 + p_req * 0.75 + 0.15:
                    k = rng.randrange(2, 6)
                    ops.append([7, k])
                    for _ in range(k):
                        ops.append([0, nid]); nid += 1
                    i += k
                else:
                    ops.append([0, nid]); nid += 1
                i += 1
            cap = 4096 if kind in ("bounded", "nbbounded") else 0
            cases.append({"K": kind, "C": cap, "Ops": ops})
    return cases


def gen_handoff_cases(ctx):
    """end-of-turn windows on real actors: (mailbox) x (window) x (burst size, waiting for the other worker or
    not, Tell or BatchTell)"""
    cases = []
    shapes = [dict(Point=0, Racing=3, Hold=True, Batch=False), dict(Point=0, Racing=4, Hold=True, Batch=True),
              dict(Point=0, Racing=2, Hold=False, Batch=False), dict(Point=1, Racing=3, Hold=False, Batch=False)]
    if ctx.thorough:
        shapes += [dict(Point=0, Racing=6, Hold=True, Batch=False), dict(Point=1, Racing=4, Hold=False, Batch=True),
                   dict(Point=0, Racing=2, Hold=True, Batch=False)]
    for kind in FIFO_KINDS:
        cap = 64 if kind in ("bounded", "nbbounded") else 0
        for sh in shapes:
            cases.append(dict(sh, K=kind, C=cap))
    return cases


def gen_scenarios(ctx):
    t = 4 if ctx.thorough else 1
    scs = []
    for kind in ["unbounded", "segmented", "nbbounded", "fair"]:
        cap = 8 if kind == "nbbounded" else 0
        base = dict(K=kind, C=cap, Eff=mu.eff_cap(kind, cap), P=0, Procs=0, MaxPreempt=2, Drain=14, Scripts=[])
        scs.append(dict(base, Name=kind + "/3-2-msgs", Prefill=[], Threads=[[E(1, 1), E(2, 1), E(3, 1)], [E(4, 2), E(5, 2)], [D, D, D]],
                        MaxRuns=500 * t, RandomRuns=250 * t))
        scs.append(dict(base, Name=kind + "/2x2+consumer", Prefill=[E(9, 3)], Threads=[[E(1, 1), E(2, 1)], [E(3, 2), E(4, 2)], [D, D, D, D]],
                        MaxRuns=500 * t, RandomRuns=250 * t))
    # fair mailbox: two goroutines share the anonymous sender key
    scs.append(dict(K="fair", C=0, Eff=0, P=0, Procs=0, MaxPreempt=2, Drain=14, Scripts=[], Name="fair/anonymous-2x2",
                    Prefill=[], Threads=[[E(1, -1), E(2, -1)], [E(3, -1), E(4, -1)], [D, D]], MaxRuns=500 * t, RandomRuns=250 * t))
    # segment boundary with several messages per sender
    pre = [E(1000 + i, 0) for i in range(254)]
    scs.append(dict(K="segmented", C=0, Eff=0, P=0, Procs=0, MaxPreempt=1, Drain=300, Scripts=[], Name="segmented/boundary-2x3",
                    Prefill=pre, Threads=[[E(1, 1), E(2, 1), E(3, 1)], [E(4, 2), E(5, 2), E(6, 2)], [D, D, D]], MaxRuns=120 * t, RandomRuns=80 * t))
    return scs


def gen_stress(ctx):
    big = 4 if ctx.thorough else 1
    cfgs = []
    for kind in FIFO_KINDS:
        cap = 1 << 15 if kind in ("bounded", "nbbounded") else 0
        cfgs.append(dict(K=kind, C=cap, Senders=4, PerSend=1200 * big, Mode=4, Stash=0, Procs=4, Lossless=True))
        cfgs.append(dict(K=kind, C=cap, Senders=3, PerSend=500 * big, Mode=4, Stash=3, Procs=4, Lossless=True))
        if kind == "nbbounded":
            # small ring: refused messages go to dead letters; the accepted ones stay ordered
            cfgs.append(dict(K=kind, C=8, Senders=4, PerSend=800 * big, Mode=0, Stash=0, Procs=4, Lossless=False))
        if kind == "bounded":
            cfgs.append(dict(K=kind, C=8, Senders=4, PerSend=600 * big, Mode=1, Stash=0, Procs=4, Lossless=True))
    return cfgs


def coq_gate_compare(ctx, cases, outs, name="cases_C03"):
    names = {0: "Send %s", 8: "Req %s", 1: "StashOn", 2: "StashOff", 3: "UnstashAll", 4: "UnstashOne"}
    items = []
    for i, (c, o) in enumerate(zip(cases, outs)):
        ops = []
        for op in c["Ops"]:
            if op[0] == 7:
                continue  # a BatchTell marker: the following sends are the batch
            ops.append(names[op[0]] % zlit(op[1]) if op[0] in (0, 8) else names[op[0]])
        log = "; ".join("(%d,%s)" % (e[0], zlit(e[1])) for e in (o.get("Log") or []))
        acks = "None" if o.get("Acks") is None else "Some [%s]" % "; ".join(zlit(a) for a in o["Acks"])
        items.append("(%d%%Z, [%s], [%s], %s)" % (i, "; ".join(ops), log, acks))
    body = """From Coq Require Import ZArith List Bool. Import ListNotations.
From GV Require Import C03.Model.
Open Scope Z_scope.
Fixpoint log_eqb (a b : list (Z*Z)) : bool :=
  match a, b with [], [] => true | (x1,x2) :: r, (y1,y2) :: s => (x1 =? y1) && (x2 =? y2) && log_eqb r s | _, _ => false end.
Fixpoint zs_eqb (a b : list Z) : bool :=
  match a, b with [], [] => true | x :: r, y :: s => (x =? y) && zs_eqb r s | _, _ => false end.
Definition cases : list (Z * list aop * list (Z*Z) * option (list Z)) := [
%s
].
Definition okc (c : Z * list aop * list (Z*Z) * option (list Z)) : bool :=
  match c with (i, ops, l, acks) =>
    log_eqb (actor_log ops) l && match acks with Some a => zs_eqb (reply_log ops) a | None => true end end.
Definition bad := filter (fun c => negb (okc c)) cases.
Definition summary := (length cases, length bad, map (fun c => match c with (i, ops, l, a) => (i, firstn 12 (actor_log ops), firstn 12 (reply_log ops)) end) (firstn 2 bad)).
Eval vm_compute in summary.
""" % ";\n".join(items)
    rc, out = ctx.coq_eval(name, body, timeout=900)
    flat = " ".join(out.split())
    m = re.search(r"= \((\d+)%nat, (\d+)%nat, (\[.*\])\) : ", flat)
    if rc != 0 or not m:
        return None, None, out[-3000:]
    return int(m.group(1)), int(m.group(2)), m.group(3)[:1500]


def gate_oracle(c, o):
    """independent of the model: every sent id processed exactly once; never-stashed ids in send order;
    re-delivered ids oldest-stashed first"""
    if o.get("Err"):
        return ("no-progress", o["Err"])
    sent = [op[1] for op in c["Ops"] if op[0] in (0, 8)]
    handled = [e[1] for e in o["Log"] if e[0] == 0]
    if sorted(handled) != sorted(sent):
        lost = sorted(set(sent) - set(handled))[:5]
        dup = sorted({x for x in handled if handled.count(x) > 1})[:5]
        return ("lost-or-duplicated", "sent %d ids, processed %d; missing %s duplicated %s" % (len(sent), len(handled), lost, dup))
    stashed_q, ever, last = [], set(), -1
    for kind, i in o["Log"]:
        if kind == 1:
            stashed_q.append(i)
            ever.add(i)
        elif i in stashed_q:
            if stashed_q[0] != i:
                return ("stash-order", "unstashed id %d processed before the older stashed id %d" % (i, stashed_q[0]))
            stashed_q.pop(0)
        elif i not in ever:
            if i <= last:
                return ("fifo-order", "id %d processed after id %d (single sender, neither stashed)" % (i, last))
            last = i
    return None


def driver_oracle(c, o):
    """the receiver-side oracle of the gate runs, plus: the sender handles the acknowledgements
    (Tell) and responses (Request) in the order the receiver produced them"""
    v = gate_oracle(c, o)
    if v:
        return v
    processed = [e[1] for e in o["Log"] if e[0] == 0]
    acks = o.get("Acks") or []
    if sorted(acks) != sorted(processed):
        return ("reply-lost-or-duplicated", "receiver processed %d messages, sender handled %d replies" % (len(processed), len(acks)))
    if acks != processed:
        k = next(i for i, (a, b) in enumerate(zip(acks, processed)) if a != b)
        return ("reply-order", "the receiver answered ids %s in this order; the sender handled %s (first difference at position %d)" % (processed[max(0, k - 2):k + 3], acks[max(0, k - 2):k + 3], k))
    return None


def handoff_oracle(c, o):
    n = 1 + c["Racing"]
    if o.get("Err"):
        return ("no-progress", "%s (handled so far: %s)" % (o["Err"], o.get("Starts")))
    st, en = o.get("Starts") or [], o.get("Ends") or []
    if sorted(st) != list(range(n)):
        return ("lost-or-duplicated", "sent ids 0..%d, handled %s" % (n - 1, st))
    if st != list(range(n)):
        return ("fifo-order", "one sender sent 0..%d in order; handlers STARTED in order %s%s" % (n - 1, st, " (two workers ran the actor at once)" if o.get("Overlap") else ""))
    if en != list(range(n)):
        return ("fifo-order", "one sender sent 0..%d in order; handlers FINISHED in order %s" % (n - 1, en))
    if o.get("Overlap"):
        return ("fifo-order", "two dispatcher workers handled messages of one sender at the same time (handler of a later message started before the earlier one returned): %s" % st)
    return None


def run(ctx):
    ctx.trusted += [
        "tools/mbinstr + the logical-thread scheduler and history oracle (shared with C04)",
        "the test actor (go/inpkg/actor/zz_verif_C03_test.go) records what it processes; its own mutex-protected log is the observation",
        "Go memory model: sync/atomic operations are sequentially consistent",
    ]
    ctx.assumptions += [
        "sender = one goroutine using one sender identity (anonymous API or one sender PID)",
        "the receiving actor handles one message at a time (C01) and every accepted message once (C02)",
        "stash order is compared within one stash generation (re-delivered messages re-enter at the mailbox tail by design)",
    ]
    overlay, notes = mu.build_overlay(ctx, ["zz_verif_C04_test.go", "zz_verif_C03_test.go"])
    if not notes.get("instrumented"):
        ctx.tie_broken("mbinstr could not instrument the mailbox files", notes)
    cases = gen_gate_cases(ctx)
    scs = gen_scenarios(ctx) if notes.get("instrumented") else []
    stress = gen_stress(ctx)

    def dump(name, rows):
        with open(os.path.join(ctx.work, name), "w") as f:
            for r in rows:
                f.write(json.dumps(r) + "\n")

    dcases = gen_driver_cases(ctx)
    hcases = gen_handoff_cases(ctx)
    dump("c03_drv_in.jsonl", dcases)
    dump("c03_handoff_in.jsonl", hcases)
    dump("c03_gate_in.jsonl", cases)
    dump("c04_sched_in.jsonl", scs)
    dump("c03_stress_in.jsonl", stress)
    for fn in ("c03_gate_out.jsonl", "c04_sched_out.jsonl", "c03_stress_out.jsonl", "c03_drv_out.jsonl", "c03_handoff_out.jsonl"):
        p = os.path.join(ctx.work, fn)
        if os.path.exists(p):
            os.remove(p)
    rc, out = mu.go_test(ctx, overlay, "^TestVerif(C03Gate|C03Driver|C03Handoff|C03Actors|C04Sched)$", timeout=1500 if ctx.thorough else 600)
    ctx.log("go harness rc=%d" % rc)
    if rc != 0 and notes.get("instrumented") and ("build failed" in out or "[setup failed]" in out):
        ctx.tie_broken("instrumented mailbox build failed", out[-3000:])
        overlay, _ = mu.build_overlay(ctx, ["zz_verif_C04_test.go", "zz_verif_C03_test.go"], instrument=False)
        rc, out = mu.go_test(ctx, overlay, "^TestVerif(C03Gate|C03Driver|C03Handoff|C03Actors)$", timeout=600)
    gouts = read_jsonl(os.path.join(ctx.work, "c03_gate_out.jsonl"))
    sched = read_jsonl(os.path.join(ctx.work, "c04_sched_out.jsonl"))
    strs = read_jsonl(os.path.join(ctx.work, "c03_stress_out.jsonl"))
    if rc != 0 or len(gouts) != len(cases):
        ctx.tie_broken("go-harness TestVerifC03 (rc=%d, %d/%d gate cases)" % (rc, len(gouts), len(cases)), out[-4000:])

    douts = read_jsonl(os.path.join(ctx.work, "c03_drv_out.jsonl"))
    houts = read_jsonl(os.path.join(ctx.work, "c03_handoff_out.jsonl"))
    if len(douts) != len(dcases) or len(houts) != len(hcases):
        ctx.tie_broken("go-harness TestVerifC03Driver/Handoff wrote %d/%d and %d/%d cases" % (len(douts), len(dcases), len(houts), len(hcases)), out[-3000:])
    sig_seen = {}
    # ---- sender programs mixing Tell / BatchTell / Request (oracle + model)
    n_dv = 0
    for c, o in zip(dcases, douts):
        v = driver_oracle(c, o)
        if v and n_dv < 4:
            n_dv += 1
            ctx.violation("mixed-sends:%s:%s" % (c["K"], v[0]),
                          "%s mailbox, one sender actor issuing Tell/BatchTell/Request from one handler to a busy receiver: %s" % (c["K"], v[1]),
                          {"mailbox": c["K"], "capacity": c["C"], "ops": c["Ops"], "receiver_log": o.get("Log"), "sender_replies": o.get("Acks"),
                           "legend": "op [code,id]: 0 ctx.Tell id, 7 ctx.BatchTell of the next n sends, 8 ctx.Request id, 1 stash on, 2 stash off, 3 UnstashAll, 4 Unstash; receiver_log [0,id] processed, [1,id] stashed; sender_replies = ids in the order the sender handled the receiver's Tell-acks / Responses"})
    drv_mismatch = None
    if douts and len(douts) == len(dcases):
        n, nbad, det = coq_gate_compare(ctx, dcases, douts, name="cases_C03_drv")
        if n is None:
            ctx.tie_broken("cases_C03_drv.v did not evaluate", det)
        else:
            drv_mismatch = nbad
            if nbad:
                ctx.tie_broken("actor model C03/Model.v (Tell/Request/stash, replies) vs real actors: %d of %d sender programs differ" % (nbad, n), det)
    # ---- end-of-turn hand-off windows
    n_hv = 0
    fired = 0
    for c, o in zip(hcases, houts):
        fired += 1 if o.get("Fired") else 0
        v = handoff_oracle(c, o)
        if v and n_hv < 4:
            n_hv += 1
            ctx.violation("handoff:%s:%s" % (c["K"], v[0]),
                          "%s mailbox, burst of %d messages from one sender inside the end-of-turn window (%s)%s: %s" %
                          (c["K"], c["Racing"], "IsEmpty re-check" if c["Point"] == 0 else "Dequeue returned nil",
                           ", first message taken by another worker whose Dequeue returns slowly" if c["Hold"] else "", v[1]),
                          {"case": c, "handler_starts": o.get("Starts"), "handler_ends": o.get("Ends"), "overlap": o.get("Overlap")})
    if houts and fired < len(houts) // 2:
        ctx.notes.append("hand-off windows: the perturbation fired in only %d of %d cases" % (fired, len(houts)))
    # ---- (S) oracle + model on the gate runs
    distinct = set()
    op_hist = {"Send": 0, "BatchTell": 0, "StashOn": 0, "StashOff": 0, "UnstashAll": 0, "UnstashOne": 0}
    n_viol = 0
    for c, o in zip(cases, gouts):
        for op in c["Ops"]:
            op_hist[{0: "Send", 7: "BatchTell", 1: "StashOn", 2: "StashOff", 3: "UnstashAll", 4: "UnstashOne"}[op[0]]] += 1
        v = gate_oracle(c, o)
        if v and n_viol < 6:
            n_viol += 1
            ctx.violation("gate:%s:%s" % (c["K"], v[0]), "%s mailbox, one sender, ops queued behind a gate: %s" % (c["K"], v[1]),
                          {"mailbox": c["K"], "capacity": c["C"], "ops": c["Ops"], "log": o.get("Log"),
                           "legend": "op [code,id]: 0 Tell id, 7 BatchTell of the next n sends, 1 stash on, 2 stash off, 3 UnstashAll, 4 Unstash; log [0,id] processed, [1,id] stashed"})
        if any(e[0] == 1 for e in (o.get("Log") or [])) or len(o.get("Log") or []) > 10:
            distinct.add(vlib.canon_hash(c))
    gate_mismatch = None
    if gouts and len(gouts) == len(cases):
        ok_m, mo = ctx.coq_build(["theories/C03/Model.vo"])
        if not ok_m:
            ctx.proof_broken("C03/Model.v does not compile", mo)
        else:
            n, nbad, det = coq_gate_compare(ctx, cases, gouts)
            if n is None:
                ctx.tie_broken("cases_C03.v did not evaluate", det)
            else:
                gate_mismatch = nbad
                if nbad:
                    ctx.tie_broken("actor/stash model C03/Model.v vs real actors: %d of %d cases differ" % (nbad, n), det)

    # ---- (T) schedules: only the order/conservation classes belong to this property
    mine = ("fifo-order", "duplicated", "invented-message", "wrong-mailbox", "stuck-at-quiescence", "hang")
    sched_runs = sched_distinct = 0
    by_name = {s["Name"]: s for s in scs}
    for s in sched:
        sched_runs += s["Runs"]
        sched_distinct += s["Distinct"]
        for v in s.get("Violations") or []:
            sig = v["Sig"]
            if not any(m in sig for m in mine):
                continue
            if sig.startswith("fair:stuck-at-quiescence:same-sender-concurrent-enqueues"):
                sig = FAIR_STALL
            elif ":stuck-at-quiescence" in sig:
                sig = sig.split(":paused@")[0]
            if sig in sig_seen:
                continue
            sig_seen[sig] = s["SigCounts"].get(v["Sig"], 1)
            ctx.violation(sig, "%s [scenario %s]: %s" % (s["K"], s["Scenario"], v["What"]),
                          {"scenario": by_name.get(s["Scenario"]), "schedule (thread chosen at each yield point)": v.get("Sched"), "history": v.get("Hist")})
    if scs and len(sched) != len(scs):
        ctx.tie_broken("schedule harness wrote %d of %d scenario summaries" % (len(sched), len(scs)), out[-3000:])

    # ---- real actors
    msgs = 0
    for s in strs:
        msgs += s["Handled"]
        for v in s.get("Violations") or []:
            sig = v["Sig"]
            if sig == "fair:stuck-at-quiescence:real-actors" or (s["Cfg"]["K"] == "fair" and sig == "fair:lost"):
                sig = FAIR_STALL
            if s["Cfg"]["K"] == "segmented" and sig.split(":", 1)[1] in ("lost", "no-progress", "fifo-order"):
                # pooled-segment reuse under real goroutines (see C04): messages lost or misplaced
                sig = SEG_REUSE
            if sig in sig_seen:
                continue
            sig_seen[sig] = 1
            ctx.violation(sig, "%s [real actors %s]: %s" % (s["Cfg"]["K"], json.dumps(s["Cfg"]), v["What"]), {"config": s["Cfg"], "seed": ctx.seed})

    if not ctx.coq_property():
        if not any(f.kind == "violation" for f in ctx.findings):
            ctx.proof_broken("Properties/C03.v (%s)" % getattr(ctx, "failed_at", "?"), getattr(ctx, "coq_log", ""))
        else:
            ctx.notes.append("Coq obligation broken at %s; concrete failing input reported" % getattr(ctx, "failed_at", "?"))
    pf = os.path.join(vlib.COQ, "theories/Properties/C03.v")
    thms = re.findall(r"^\s*Theorem\s+(\w+)", open(pf).read(), re.M) if os.path.exists(pf) else []
    ctx.coverage.update({
        "evaluations": len(gouts) + len(douts) + len(houts) + sched_runs + len(strs),
        "distinct_nontrivial": len(distinct) + sched_distinct,
        "rule": "gate case non-trivial = something was stashed or more than 10 log entries, distinct by hash of (mailbox, ops); schedule non-trivial = distinct invocation/response history",
        "samples": [{"gate": {"mailbox": cases[0]["K"], "ops": cases[0]["Ops"][:10], "log": (gouts[0].get("Log") or [])[:10]}}] if cases and gouts else [],
        "gate_cases": len(gouts), "gate_ops": op_hist, "gate_model_mismatches": gate_mismatch,
        "mixed_send_programs": len(douts), "mixed_send_model_mismatches": drv_mismatch,
        "requests_sent": sum(1 for c in dcases for op in c["Ops"] if op[0] == 8),
        "handoff_cases": len(houts), "handoff_windows_fired": fired,
        "mailboxes": FIFO_KINDS, "schedule_scenarios": len(sched), "schedules_run": sched_runs, "distinct_histories": sched_distinct,
        "real_actor_configs": len(strs), "real_actor_messages": msgs, "stashed_messages": sum(s.get("Stashed", 0) for s in strs),
        "signatures_seen": sig_seen, "theorems": thms,
    })


META = {
    "ready": True,
    "category": "proof",
    "technique": "Rocq invariant proofs (sender programs x reservation-queue mailbox, stash list) + gate-released op sequences on real actors compared with the model + schedule enumeration + concurrent senders on real actors",
    "text": "Per-sender FIFO proved for any number of senders and any interleaving over the reservation-queue mailbox that the FIFO mailboxes refine (C04), and for the per-sender sub-queues of the fair mailbox; stash/unstash order by a list model. Real actors with every FIFO mailbox run generated op sequences (compared with the Coq model by vm_compute) and concurrent senders using Tell/BatchTell/PID.Tell/PID.BatchTell with stash phases; sender threads are also enumerated over yield points in the real mailbox code.",
    "design_ref": "DESIGN.md 7/C03",
    "level_note": "Trusted: Coq kernel, instrumenter + scheduler harness, the recording test actor.",
}
