"""C03 — messages from one sender are processed in the order they were sent (FIFO mailboxes, BatchTell,
stash/unstash).

Proof:  Properties/C03.v (C03/Model.v actor + stash model, C03/Proofs.v: sender programs composed with the
        reservation-queue mailbox of C04/Contract.v, any number of senders, any interleaving).
Tie:    (S) op sequences (sends, BatchTell runs, stash on/off, unstash one/all) queued behind a gate message
            on REAL actors with each FIFO mailbox; the processing log is compared with C03/Model.v evaluated
            by vm_compute on the same sequences;
        (T) logical sender threads over the instrumented mailbox sources (several messages per sender),
            context-bounded schedule enumeration (shared with C04);
        real actors under concurrent senders (Tell, BatchTell, PID.Tell, PID.BatchTell) with stash phases.
Oracle: (sender, seq) monotone per sender; stashed messages re-delivered exactly once, oldest first.
"""
import json
import os
import re

import vlib
from vlib import read_jsonl, zlit
import mbox_util as mu

FIFO_KINDS = ["unbounded", "segmented", "bounded", "nbbounded", "fair"]
FAIR_STALL = "UnboundedFairMailbox:sender-deactivated-while-producer-mid-link"
SEG_REUSE = "segmented:pooled-segment-reuse:stale-tail-producer"


def E(i, s, p=0, b=0):
    return [0, i, s, p, b]


D = [1, 0, 0, 0, 0]


def gen_gate_cases(ctx):
    rng = ctx.rng
    cases = []
    n = 30 if ctx.thorough else 9
    cdir = os.path.join(vlib.VERIF, "corpus", "C03")
    if os.path.isdir(cdir):
        for f in sorted(os.listdir(cdir)):
            if f.endswith(".jsonl"):
                cases += [c for c in read_jsonl(os.path.join(cdir, f)) if "Ops" in c]
    for kind in FIFO_KINDS:
        for j in range(n):
            ops, nid = [], 1
            length = rng.choice([8, 15, 30, 60]) if j % 4 else 300  # 300: crosses a 256-slot segment
            stashy = j % 3 != 0
            i = 0
            while i < length:
                r = rng.random()
                if stashy and r < 0.10:
                    ops.append([1, 0])
                elif stashy and r < 0.18:
                    ops.append([2, 0])
                elif stashy and r < 0.25:
                    ops.append([3, 0])
                elif stashy and r < 0.32:
                    ops.append([4, 0])
                elif r < 0.45:
                    k = rng.randrange(2, 7)
                    ops.append([7, k])
                    for _ in range(k):
                        ops.append([0, nid]); nid += 1
                    i += k
                else:
                    ops.append([0, nid]); nid += 1
                i += 1
            cap = 4096 if kind in ("bounded", "nbbounded") else 0
            cases.append({"K": kind, "C": cap, "Ops": ops})
    return cases


def gen_scenarios(ctx):
    t = 4 if ctx.thorough else 1
    scs = []
    for kind in ["unbounded", "segmented", "nbbounded", "fair"]:
        cap = 8 if kind == "nbbounded" else 0
        base = dict(K=kind, C=cap, Eff=mu.eff_cap(kind, cap), P=0, Procs=0, MaxPreempt=2, Drain=14, Scripts=[])
        scs.append(dict(base, Name=kind + "/3-2-msgs", Prefill=[], Threads=[[E(1, 1), E(2, 1), E(3, 1)], [E(4, 2), E(5, 2)], [D, D, D]],
                        MaxRuns=500 * t, RandomRuns=250 * t))
        scs.append(dict(base, Name=kind + "/2x2+consumer", Prefill=[E(9, 3)], Threads=[[E(1, 1), E(2, 1)], [E(3, 2), E(4, 2)], [D, D, D, D]],
                        MaxRuns=500 * t, RandomRuns=250 * t))
    # fair mailbox: two goroutines share the anonymous sender key
    scs.append(dict(K="fair", C=0, Eff=0, P=0, Procs=0, MaxPreempt=2, Drain=14, Scripts=[], Name="fair/anonymous-2x2",
                    Prefill=[], Threads=[[E(1, -1), E(2, -1)], [E(3, -1), E(4, -1)], [D, D]], MaxRuns=500 * t, RandomRuns=250 * t))
    # segment boundary with several messages per sender
    pre = [E(1000 + i, 0) for i in range(254)]
    scs.append(dict(K="segmented", C=0, Eff=0, P=0, Procs=0, MaxPreempt=1, Drain=300, Scripts=[], Name="segmented/boundary-2x3",
                    Prefill=pre, Threads=[[E(1, 1), E(2, 1), E(3, 1)], [E(4, 2), E(5, 2), E(6, 2)], [D, D, D]], MaxRuns=120 * t, RandomRuns=80 * t))
    return scs


def gen_stress(ctx):
    big = 4 if ctx.thorough else 1
    cfgs = []
    for kind in FIFO_KINDS:
        cap = 1 << 15 if kind in ("bounded", "nbbounded") else 0
        cfgs.append(dict(K=kind, C=cap, Senders=4, PerSend=1200 * big, Mode=4, Stash=0, Procs=4, Lossless=True))
        cfgs.append(dict(K=kind, C=cap, Senders=3, PerSend=500 * big, Mode=4, Stash=3, Procs=4, Lossless=True))
        if kind == "nbbounded":
            # small ring: refused messages go to dead letters; the accepted ones stay ordered
            cfgs.append(dict(K=kind, C=8, Senders=4, PerSend=800 * big, Mode=0, Stash=0, Procs=4, Lossless=False))
        if kind == "bounded":
            cfgs.append(dict(K=kind, C=8, Senders=4, PerSend=600 * big, Mode=1, Stash=0, Procs=4, Lossless=True))
    return cfgs


def coq_gate_compare(ctx, cases, outs):
    names = {0: "Send %s", 1: "StashOn", 2: "StashOff", 3: "UnstashAll", 4: "UnstashOne"}
    items = []
    for i, (c, o) in enumerate(zip(cases, outs)):
        ops = []
        for op in c["Ops"]:
            if op[0] == 7:
                continue  # a BatchTell marker: the following sends are the batch
            ops.append(names[op[0]] % zlit(op[1]) if op[0] == 0 else names[op[0]])
        log = "; ".join("(%d,%s)" % (e[0], zlit(e[1])) for e in (o.get("Log") or []))
        items.append("(%d%%Z, [%s], [%s])" % (i, "; ".join(ops), log))
    body = """From Coq Require Import ZArith List Bool. Import ListNotations.
From GV Require Import C03.Model.
Open Scope Z_scope.
Fixpoint log_eqb (a b : list (Z*Z)) : bool :=
  match a, b with [], [] => true | (x1,x2) :: r, (y1,y2) :: s => (x1 =? y1) && (x2 =? y2) && log_eqb r s | _, _ => false end.
Definition cases : list (Z * list aop * list (Z*Z)) := [
%s
].
Definition bad := filter (fun c => match c with (i, ops, l) => negb (log_eqb (actor_log ops) l) end) cases.
Definition summary := (length cases, length bad, map (fun c => match c with (i, ops, l) => (i, firstn 12 (actor_log ops)) end) (firstn 2 bad)).
Eval vm_compute in summary.
""" % ";\n".join(items)
    rc, out = ctx.coq_eval("cases_C03", body, timeout=900)
    flat = " ".join(out.split())
    m = re.search(r"= \((\d+)%nat, (\d+)%nat, (\[.*\])\) : ", flat)
    if rc != 0 or not m:
        return None, None, out[-3000:]
    return int(m.group(1)), int(m.group(2)), m.group(3)[:1500]


def gate_oracle(c, o):
    """independent of the model: every sent id processed exactly once; never-stashed ids in send order;
    re-delivered ids oldest-stashed first"""
    if o.get("Err"):
        return ("no-progress", o["Err"])
    sent = [op[1] for op in c["Ops"] if op[0] == 0]
    handled = [e[1] for e in o["Log"] if e[0] == 0]
    if sorted(handled) != sorted(sent):
        lost = sorted(set(sent) - set(handled))[:5]
        dup = sorted({x for x in handled if handled.count(x) > 1})[:5]
        return ("lost-or-duplicated", "sent %d ids, processed %d; missing %s duplicated %s" % (len(sent), len(handled), lost, dup))
    stashed_q, ever, last = [], set(), -1
    for kind, i in o["Log"]:
        if kind == 1:
            stashed_q.append(i)
            ever.add(i)
        elif i in stashed_q:
            if stashed_q[0] != i:
                return ("stash-order", "unstashed id %d processed before the older stashed id %d" % (i, stashed_q[0]))
            stashed_q.pop(0)
        elif i not in ever:
            if i <= last:
                return ("fifo-order", "id %d processed after id %d (single sender, neither stashed)" % (i, last))
            last = i
    return None


def run(ctx):
    ctx.trusted += [
        "tools/mbinstr + the logical-thread scheduler and history oracle (shared with C04)",
        "the test actor (go/inpkg/actor/zz_verif_C03_test.go) records what it processes; its own mutex-protected log is the observation",
        "Go memory model: sync/atomic operations are sequentially consistent",
    ]
    ctx.assumptions += [
        "sender = one goroutine using one sender identity (anonymous API or one sender PID)",
        "the receiving actor handles one message at a time (C01) and every accepted message once (C02)",
        "stash order is compared within one stash generation (re-delivered messages re-enter at the mailbox tail by design)",
    ]
    overlay, notes = mu.build_overlay(ctx, ["zz_verif_C04_test.go", "zz_verif_C03_test.go"])
    if not notes.get("instrumented"):
        ctx.tie_broken("mbinstr could not instrument the mailbox files", notes)
    cases = gen_gate_cases(ctx)
    scs = gen_scenarios(ctx) if notes.get("instrumented") else []
    stress = gen_stress(ctx)

    def dump(name, rows):
        with open(os.path.join(ctx.work, name), "w") as f:
            for r in rows:
                f.write(json.dumps(r) + "\n")

    dump("c03_gate_in.jsonl", cases)
    dump("c04_sched_in.jsonl", scs)
    dump("c03_stress_in.jsonl", stress)
    for fn in ("c03_gate_out.jsonl", "c04_sched_out.jsonl", "c03_stress_out.jsonl"):
        p = os.path.join(ctx.work, fn)
        if os.path.exists(p):
            os.remove(p)
    rc, out = mu.go_test(ctx, overlay, "^TestVerif(C03Gate|C03Actors|C04Sched)$", timeout=1500 if ctx.thorough else 600)
    ctx.log("go harness rc=%d" % rc)
    if rc != 0 and notes.get("instrumented") and ("build failed" in out or "[setup failed]" in out):
        ctx.tie_broken("instrumented mailbox build failed", out[-3000:])
        overlay, _ = mu.build_overlay(ctx, ["zz_verif_C04_test.go", "zz_verif_C03_test.go"], instrument=False)
        rc, out = mu.go_test(ctx, overlay, "^TestVerif(C03Gate|C03Actors)$", timeout=600)
    gouts = read_jsonl(os.path.join(ctx.work, "c03_gate_out.jsonl"))
    sched = read_jsonl(os.path.join(ctx.work, "c04_sched_out.jsonl"))
    strs = read_jsonl(os.path.join(ctx.work, "c03_stress_out.jsonl"))
    if rc != 0 or len(gouts) != len(cases):
        ctx.tie_broken("go-harness TestVerifC03 (rc=%d, %d/%d gate cases)" % (rc, len(gouts), len(cases)), out[-4000:])

    sig_seen = {}
    # ---- (S) oracle + model on the gate runs
    distinct = set()
    op_hist = {"Send": 0, "BatchTell": 0, "StashOn": 0, "StashOff": 0, "UnstashAll": 0, "UnstashOne": 0}
    n_viol = 0
    for c, o in zip(cases, gouts):
        for op in c["Ops"]:
            op_hist[{0: "Send", 7: "BatchTell", 1: "StashOn", 2: "StashOff", 3: "UnstashAll", 4: "UnstashOne"}[op[0]]] += 1
        v = gate_oracle(c, o)
        if v and n_viol < 6:
            n_viol += 1
            ctx.violation("gate:%s:%s" % (c["K"], v[0]), "%s mailbox, one sender, ops queued behind a gate: %s" % (c["K"], v[1]),
                          {"mailbox": c["K"], "capacity": c["C"], "ops": c["Ops"], "log": o.get("Log"),
                           "legend": "op [code,id]: 0 Tell id, 7 BatchTell of the next n sends, 1 stash on, 2 stash off, 3 UnstashAll, 4 Unstash; log [0,id] processed, [1,id] stashed"})
        if any(e[0] == 1 for e in (o.get("Log") or [])) or len(o.get("Log") or []) > 10:
            distinct.add(vlib.canon_hash(c))
    gate_mismatch = None
    if gouts and len(gouts) == len(cases):
        ok_m, mo = ctx.coq_build(["theories/C03/Model.vo"])
        if not ok_m:
            ctx.proof_broken("C03/Model.v does not compile", mo)
        else:
            n, nbad, det = coq_gate_compare(ctx, cases, gouts)
            if n is None:
                ctx.tie_broken("cases_C03.v did not evaluate", det)
            else:
                gate_mismatch = nbad
                if nbad:
                    ctx.tie_broken("actor/stash model C03/Model.v vs real actors: %d of %d cases differ" % (nbad, n), det)

    # ---- (T) schedules: only the order/conservation classes belong to this property
    mine = ("fifo-order", "duplicated", "invented-message", "wrong-mailbox", "stuck-at-quiescence", "hang")
    sched_runs = sched_distinct = 0
    by_name = {s["Name"]: s for s in scs}
    for s in sched:
        sched_runs += s["Runs"]
        sched_distinct += s["Distinct"]
        for v in s.get("Violations") or []:
            sig = v["Sig"]
            if not any(m in sig for m in mine):
                continue
            if sig.startswith("fair:stuck-at-quiescence:same-sender-concurrent-enqueues"):
                sig = FAIR_STALL
            elif ":stuck-at-quiescence" in sig:
                sig = sig.split(":paused@")[0]
            if sig in sig_seen:
                continue
            sig_seen[sig] = s["SigCounts"].get(v["Sig"], 1)
            ctx.violation(sig, "%s [scenario %s]: %s" % (s["K"], s["Scenario"], v["What"]),
                          {"scenario": by_name.get(s["Scenario"]), "schedule (thread chosen at each yield point)": v.get("Sched"), "history": v.get("Hist")})
    if scs and len(sched) != len(scs):
        ctx.tie_broken("schedule harness wrote %d of %d scenario summaries" % (len(sched), len(scs)), out[-3000:])

    # ---- real actors
    msgs = 0
    for s in strs:
        msgs += s["Handled"]
        for v in s.get("Violations") or []:
            sig = v["Sig"]
            if sig == "fair:stuck-at-quiescence:real-actors" or (s["Cfg"]["K"] == "fair" and sig == "fair:lost"):
                sig = FAIR_STALL
            if s["Cfg"]["K"] == "segmented" and sig.split(":", 1)[1] in ("lost", "no-progress", "fifo-order"):
                # pooled-segment reuse under real goroutines (see C04): messages lost or misplaced
                sig = SEG_REUSE
            if sig in sig_seen:
                continue
            sig_seen[sig] = 1
            ctx.violation(sig, "%s [real actors %s]: %s" % (s["Cfg"]["K"], json.dumps(s["Cfg"]), v["What"]), {"config": s["Cfg"], "seed": ctx.seed})

    if not ctx.coq_property():
        if not any(f.kind == "violation" for f in ctx.findings):
            ctx.proof_broken("Properties/C03.v (%s)" % getattr(ctx, "failed_at", "?"), getattr(ctx, "coq_log", ""))
        else:
            ctx.notes.append("Coq obligation broken at %s; concrete failing input reported" % getattr(ctx, "failed_at", "?"))
    pf = os.path.join(vlib.COQ, "theories/Properties/C03.v")
    thms = re.findall(r"^\s*Theorem\s+(\w+)", open(pf).read(), re.M) if os.path.exists(pf) else []
    ctx.coverage.update({
        "evaluations": len(gouts) + sched_runs + len(strs),
        "distinct_nontrivial": len(distinct) + sched_distinct,
        "rule": "gate case non-trivial = something was stashed or more than 10 log entries, distinct by hash of (mailbox, ops); schedule non-trivial = distinct invocation/response history",
        "samples": [{"gate": {"mailbox": cases[0]["K"], "ops": cases[0]["Ops"][:10], "log": (gouts[0].get("Log") or [])[:10]}}] if cases and gouts else [],
        "gate_cases": len(gouts), "gate_ops": op_hist, "gate_model_mismatches": gate_mismatch,
        "mailboxes": FIFO_KINDS, "schedule_scenarios": len(sched), "schedules_run": sched_runs, "distinct_histories": sched_distinct,
        "real_actor_configs": len(strs), "real_actor_messages": msgs, "stashed_messages": sum(s.get("Stashed", 0) for s in strs),
        "signatures_seen": sig_seen, "theorems": thms,
    })


META = {
    "ready": True,
    "category": "proof",
    "technique": "Rocq invariant proofs (sender programs x reservation-queue mailbox, stash list) + gate-released op sequences on real actors compared with the model + schedule enumeration + concurrent senders on real actors",
    "text": "Per-sender FIFO proved for any number of senders and any interleaving over the reservation-queue mailbox that the FIFO mailboxes refine (C04), and for the per-sender sub-queues of the fair mailbox; stash/unstash order by a list model. Real actors with every FIFO mailbox run generated op sequences (compared with the Coq model by vm_compute) and concurrent senders using Tell/BatchTell/PID.Tell/PID.BatchTell with stash phases; sender threads are also enumerated over yield points in the real mailbox code.",
    "design_ref": "DESIGN.md 7/C03",
    "level_note": "Trusted: Coq kernel, instrumenter + scheduler harness, the recording test actor.",
}
