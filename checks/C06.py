"""C06 — lifecycle hooks are ordered and never overlap message handling.

Proof:  Properties/C06.v over C06/Model.v (one actor's lifecycle as a small-step system: init, Tell
        split at its check/enqueue point, turns, PoisonPill on the turn, Shutdown from any other
        goroutine, tryPassivation, re-initialisation), any number of senders/stoppers, any interleaving.
Tie:    (M) generated driver sequences on a real actor (PostStop always gated, Receive gated per
        scenario, Tell split with the PID's own operations) — observable state after every action
        compared with the Coq model (cases.v + vm_compute);
        (P) every stop path x {idle, inside Receive} and the in-flight-send / restart / passivation
        special schedules on real actor systems.
Oracle: the four clauses evaluated on the recorded PreStart/Receive/PostStop begin/end events
        (one atomic counter, goroutine ids), independently of the model.
"""
import json
import os
import re

from vlib import read_jsonl, canon_hash

import c06_util as U

OFFTURN = ["Kill", "ParentStopChild", "ParentShutdown", "SupervisorStop", "Passivation", "Restart", "SystemStop"]

THEOREMS = ["C06_poststop_at_most_once_repaired", "C06_poststop_at_most_once_partial", "C06_double_poststop_refuted",
            "C06_prestart_before_first_receive_spawn", "C06_prestart_begun_before_receive",
            "C06_receive_during_restart_prestart_refuted", "C06_overlap_refuted", "C06_overlap_passivation_refuted",
            "C06_receive_after_poststop_refuted", "C06_partial", "C06_poisonpill_path", "C06_driver_within_model"]


def classify_path(po, clause):
    """signature for a clause violation seen in a (P) run"""
    path, variant = po["path"], po["variant"]
    if path in OFFTURN and variant == "inrecv" and clause == "overlap":
        return "offturn-stop-overlaps-receive:" + path
    if variant == "inflight-tell-lands-during-poststop" and clause in ("overlap", "receive-after-poststop-began"):
        return "receive-starts-after-poststop-began:inflight-send"
    if variant == "restart-inflight-tell-lands-during-prestart" and clause == "receive-before-prestart-completed":
        return "restart:receive-during-prestart:inflight-send"
    if variant == "passivation-entry-fires-after-stop" and clause == "poststop-twice":
        return "poststop-twice:passivation-after-stop"
    return "%s:%s/%s" % (clause, path, variant)


def classify_model(sc, clause):
    acts = sc["actions"]
    off = "stop_off" in acts
    pas = "passivate" in acts
    if clause == "overlap" and (off or pas):
        return "offturn-stop-overlaps-receive:" + ("Passivation" if pas and not off else "Kill")
    if clause == "receive-after-poststop-began" and (off or pas):
        return "receive-starts-after-poststop-began:" + ("inflight-send" if "enq" in acts else "queued-message")
    if clause == "poststop-twice" and pas:
        return "poststop-twice:passivation-after-stop"
    return "%s:model-scenario" % clause


def run(ctx):
    ctx.trusted += ["hand-written Gallina model C06/Model.v (tied each run: driver scenarios state-by-state on a real actor)",
                    "one worker per actor at a time (property C01) is an assumption of the model",
                    "Go runtime scheduler for the un-gated parts of a scenario (the harness waits for the scripted blocking points)"]
    ctx.assumptions += ["PostStop/PreStart return nil; the default (unbounded) mailbox, whose Dispose is a no-op",
                        "suspension (supervisor Suspend/Resume directives) is not part of the model",
                        "an incarnation = the events between one PreStart and the next"]
    # ---- generate, run the implementation
    scs = U.gen_scenarios(ctx, True)     # expectations for the repaired tryPassivation first

    def write_and_run(scs, run_pat):
        with open(os.path.join(ctx.work, "c06_model_in.jsonl"), "w") as f:
            for c in scs:
                f.write(json.dumps({k: c[k] for k in ("gate_recv", "actions", "expect")}) + "\n")
        for fn in ("c06_model_out.jsonl",) + (("c06_paths_out.jsonl",) if "Paths" in run_pat or run_pat.endswith("C06") else ()):
            p = os.path.join(ctx.work, fn)
            if os.path.exists(p):
                os.remove(p)
        return ctx.go_test("actor", run_pat, ["zz_verif_C06_test.go"])
    rc, out = write_and_run(scs, "^TestVerifC06")
    ctx.log("go harness done rc=%s" % rc)
    pouts = read_jsonl(os.path.join(ctx.work, "c06_paths_out.jsonl"))
    mouts = read_jsonl(os.path.join(ctx.work, "c06_model_out.jsonl"))
    if rc != 0 or len(mouts) != len(scs) or len(pouts) < 24:
        ctx.tie_broken("go-harness C06 (paths + model scenarios)", out)
    # ---- which tryPassivation does the tree have?  By behaviour: PostStop count in the special schedule
    fp = True
    for po in pouts:
        if po["variant"] == "passivation-entry-fires-after-stop":
            n_post = sum(1 for e in po["events"] if e["who"] == "C" and e["kind"] == "postB")
            fp = not (n_post >= 2)      # the unrepaired behaviour has to be SEEN to be assumed
    if (not fp) and len(mouts) == len(scs):
        scs = U.gen_scenarios(ctx, False)
        rc, out = write_and_run(scs, "^TestVerifC06Model$")
        mouts = read_jsonl(os.path.join(ctx.work, "c06_model_out.jsonl"))
        if rc != 0 or len(mouts) != len(scs):
            ctx.tie_broken("go-harness C06 model scenarios (second pass)", out)
            mouts = []
    # ---- property oracle on the implementation: (P)
    seen = {}
    path_table = {}

    def report(sig, what, replay):
        if seen.get(sig, 0) < 1:
            seen[sig] = seen.get(sig, 0) + 1
            ctx.violation(sig, what, replay)
    for po in pouts:
        found = U.clause_oracle(po["events"])
        kinds = sorted({c for c, _, _ in found})
        path_table["%s/%s" % (po["path"], po["variant"])] = kinds + ([po["note"].strip()] if po.get("note", "").strip() else [])
        for clause, msg, detail in found:
            sig = classify_path(po, clause)
            report(sig, "%s [%s, %s]: %s" % (po["path"], po["variant"], clause, msg),
                   {"stop_path": po["path"], "variant": po["variant"], "events": po["events"], "note": po.get("note", ""),
                    "how": "TestVerifC06Paths on a real actor system; events carry one atomic sequence counter and goroutine ids"})
        # P and S (other actors of the run) must satisfy the clauses too
        for who in ("P", "S"):
            for clause, msg, detail in U.clause_oracle(po["events"], who):
                if po["path"] in ("ParentShutdown", "SystemStop", "SupervisorStop"):
                    continue   # they are stopped off-turn as well; C is the actor under test
                report("%s:%s/%s:%s" % (clause, po["path"], po["variant"], who), msg, {"events": po["events"]})
    # ---- (M)
    n_steps = 0
    hist = {}
    timeouts = 0
    nontrivial = set()
    for sc, o in zip(scs, mouts):
        n_steps += len(o["steps"])
        timeouts += sum(1 for s_ in o["steps"] if s_["timeout"])
        for d in sc["actions"]:
            hist[d] = hist.get(d, 0) + 1
        for clause, msg, detail in U.clause_oracle(o["events"]):
            sig = classify_model(sc, clause)
            report(sig, "model scenario %s: %s" % (sc["actions"], msg),
                   {"scenario": {k: sc[k] for k in ("gate_recv", "actions")}, "events": o["events"],
                    "how": "TestVerifC06Model driver sequence on a real actor"})
        if any(d in sc["actions"] for d in ("stop_off", "pill", "passivate")) and "tell" in sc["actions"]:
            nontrivial.add(canon_hash({k: sc[k] for k in ("gate_recv", "actions")}))
    # ---- the Coq model on the same scenarios
    mism = None
    if mouts:
        items = []
        for sc, o in zip(scs, mouts):
            ds = ";".join(U.COQ_ACTION[d] for d in sc["actions"])
            exp = ";".join("(%d,[%s])" % (st["f"], ";".join(str(x) for x in st["o"])) for st in o["steps"])
            items.append("(%s,[%s],[%s])" % ("true" if sc["gate_recv"] else "false", ds, exp))
        body = """From Coq Require Import List. Import ListNotations.
From GV Require Import C06.Model.
Definition cases : list (bool * list daction * list (nat * list nat)) := [
%s
].
Definition diffs := combine (seq 0 (length cases)) (map (scenario_diff %s) cases).
Definition bad := filter (fun x => match snd x with Some _ => true | None => false end) diffs.
Definition summary := (length cases, length bad, map (fun x => (fst x, match snd x with Some s => s | None => 0 end)) (firstn 3 bad)).
Eval vm_compute in summary.
""" % (";\n".join(items), "true" if fp else "false")
        rc2, o2 = ctx.coq_eval("cases_C06", body)
        flat = " ".join(o2.split())
        m = re.search(r"= \((\d+), (\d+), (\[.*?\])\)", flat)
        if rc2 != 0 or not m:
            ctx.tie_broken("C06 model evaluation (cases.v did not evaluate)", o2)
        else:
            mism = int(m.group(2))
            if mism:
                detail = []
                for ci, si in re.findall(r"\((\d+), (\d+)\)", m.group(3)):
                    ci, si = int(ci), int(si)
                    detail.append({"scenario": {k: scs[ci][k] for k in ("gate_recv", "actions")}, "first_diverging_action_index": si,
                                   "implementation_showed": mouts[ci]["steps"][si] if si < len(mouts[ci]["steps"]) else None,
                                   "generator_expected": scs[ci]["expect"][si] if si < len(scs[ci]["expect"]) else None})
                ctx.tie_broken("lifecycle model vs real actor (observation after every driver action)",
                               {"variant": "repaired tryPassivation" if fp else "code as it is", "mismatching_scenarios": mism, "first": detail})
    ctx.log("model tie evaluated")
    ok_prop = ctx.coq_property()
    ctx.log("coq property built: %s" % ok_prop)
    if not ok_prop:
        if not any(f.kind == "violation" for f in ctx.findings):
            ctx.proof_broken("Properties/C06.v (%s)" % getattr(ctx, "failed_at", "?"), getattr(ctx, "coq_log", ""))
        else:
            ctx.notes.append("Coq obligation broken at %s; concrete failing input reported" % getattr(ctx, "failed_at", "?"))
    ctx.coverage.update({
        "evaluations": n_steps + len(pouts),
        "distinct_nontrivial": len(nontrivial) + len(pouts),
        "rule": "model scenario non-trivial = contains traffic and at least one stop (off-turn Shutdown, PoisonPill or tryPassivation), distinct by hash; "
                "every (stop path, variant) run of the paths test counts once",
        "model_scenarios": len(scs), "model_steps": n_steps, "model_action_histogram": hist, "model_wait_timeouts": timeouts,
        "model_mismatches": mism, "model_variant": "fp=true (tryPassivation re-checks running)" if fp else "fp=false (code as it is)",
        "paths_runs": len(pouts), "clauses_violated_per_path": path_table,
        "samples": [{k: scs[0][k] for k in ("gate_recv", "actions")}, {k: scs[len(scs) - 1][k] for k in ("gate_recv", "actions")}] if scs else [],
        "theorems": THEOREMS,
    })


META = {
    "ready": True,
    "category": "proof",
    "technique": "Rocq inductive invariants over a hand-written executable small-step model + scenario conformance on real actors + per-stop-path event oracle",
    "text": "Eleven theorems over a small-step model of one actor's lifecycle (init, Tell split at its check/enqueue point, turns, PoisonPill on the turn, Shutdown from any other goroutine, tryPassivation, re-initialisation; any number of senders and stoppers, any interleaving): PostStop at most once per incarnation on every path (for tryPassivation re-checking the running bit, fix c7ca1aa; witness of the double PostStop for the previous code), PreStart before the first Receive for a spawn and 'never before PreStart began' for every incarnation, all four clauses when off-turn stops do not overlap a turn (C06_partial), clauses 2-4 with no assumption on the PoisonPill path; refutation witnesses for overlap (off-turn Shutdown, passivation), Receive after PostStop began, Receive during a restart's PreStart. Every run: generated driver sequences on a real actor compared with the Coq model after every action (vm_compute), every stop path x {idle, inside Receive} and the special schedules on real actor systems with the four-clause oracle on recorded events. Also every run: a piped task result (PipeTo self / PipeToName) made to complete at chosen lifecycle points of its receiver (inside the second PreStart of a supervisor-driven restart while the receiver is suspended, inside the second PreStart of PID.Restart, inside PostStop, after the stop), checked by the clause oracle.",
    "design_ref": "DESIGN.md 7/C06",
    "level_note": "Trusted: Coq kernel, the hand-written model (tied each run), one worker per actor at a time (C01) as an assumption, Go runtime for un-gated parts. The off-turn overlap is a design-level behaviour listed in known_findings per stop path.",
}
