"""C08 — restart backoff and fault counting arithmetic.

Proof: Properties/C08.v over Gen/C08.v, which goq regenerates from actor/pid.go on every run.
Tie:   (1) regeneration itself; (2) translator validation: Gen definitions evaluated by vm_compute on the
       same boundary-biased inputs the real Go functions ran on.
Oracle on the implementation: the property's closed form with Python big integers.
"""
import json
import os

from vlib import read_jsonl, zlit

I64_MIN, I64_MAX = -2 ** 63, 2 ** 63 - 1


def spec(f, i, m):
    if i <= 0 or f < 1:
        return 0
    if f - 1 >= 64:  # initial * 2^(f-1) >= 2^64 > every int64 maximum; avoid building the huge power
        return m
    return min(i * 2 ** (f - 1), m)


def gen_inputs(ctx):
    rng = ctx.rng
    n_series = 400 if ctx.thorough else 60
    bases = [1, 2, 3, 1000, 10 ** 6, 10 ** 8, 10 ** 9, 3600 * 10 ** 9]
    for k in range(0, 63):
        bases += [2 ** k - 1, 2 ** k, 2 ** k + 1]
    bases += [I64_MAX, I64_MAX - 1, 0, -1, -5, I64_MIN, I64_MIN + 1]
    maxes = [0, 1, 10 ** 9, 30 * 10 ** 9, 3600 * 10 ** 9, 2 ** 31, 2 ** 32 + 1, 2 ** 40, 2 ** 62 - 1, 2 ** 62, 2 ** 62 + 1, I64_MAX, I64_MAX - 1]
    pairs = set()
    # corpus first: the magnitudes that wrapped before the overflow repair
    pairs.add((4294967297, 3600 * 10 ** 9))
    pairs.add((100 * 10 ** 6, 2 * 10 ** 9))
    pairs.add((1, I64_MAX))
    while len(pairs) < n_series:
        i = rng.choice(bases) if rng.random() < 0.8 else rng.randint(1, I64_MAX)
        m = rng.choice(maxes) if rng.random() < 0.6 else rng.randint(0, I64_MAX)
        if rng.random() < 0.05:
            m = -rng.randint(1, 2 ** 40)  # negative maximum: outside the "never negative" clause, closed form still applies
        pairs.add((i, m))
    ins = []
    fs = [I64_MIN, -1, 0] + list(range(1, 70)) + [100, 2 ** 31, 2 ** 62, I64_MAX]
    for (i, m) in sorted(pairs):
        for f in fs:
            ins.append({"F": f, "I": i, "M": m})
    return ins


def run(ctx):
    ctx.trusted += ["tools/goq translator (validated each run by evaluating its output against the Go function)",
                    "time.Now() readings in recordFault are bracketed by the harness, ambiguous readings skipped"]
    ctx.assumptions += ["inputs are int64 (Go type system)", "recordFault: previous-fault timestamp is a real earlier UnixNano reading (0 <= last <= now)"]
    ok, msg = ctx.goq("C08", "C08")
    if not ok:
        ctx.tie_broken("goq-translation actor/pid.go backoffDelay/recordFault", msg)
    ins = gen_inputs(ctx)
    with open(os.path.join(ctx.work, "c08_in.jsonl"), "w") as f:
        for x in ins:
            f.write(json.dumps(x) + "\n")
    wins = []
    # windows up to the int64 maximum: `last + window` style refactorings overflow there (the sentinel 'never expires')
    for window in [-5, 0, 1, 10 ** 6, 50 * 10 ** 6, 10 ** 9, 3600 * 10 ** 9, 250 * 365 * 86400 * 10 ** 9, 2 ** 62, I64_MAX - 1, I64_MAX]:
        for age in [0, 1000, 10 ** 6, 40 * 10 ** 6, 60 * 10 ** 6, 2 * 10 ** 9, 7200 * 10 ** 9]:
            for count in [0, 1, 7]:
                wins.append({"Window": window, "Age": age, "Count": count})
    with open(os.path.join(ctx.work, "c08_win_in.jsonl"), "w") as f:
        for x in wins:
            f.write(json.dumps(x) + "\n")
    for fn in ("c08_out.jsonl", "c08_win_out.jsonl"):
        p = os.path.join(ctx.work, fn)
        if os.path.exists(p):
            os.remove(p)
    rc, out = ctx.go_test("actor", "^TestVerifC08", ["zz_verif_C08_test.go"])
    outs = read_jsonl(os.path.join(ctx.work, "c08_out.jsonl"))
    wouts = read_jsonl(os.path.join(ctx.work, "c08_win_out.jsonl"))
    if rc != 0 or len(outs) != len(ins):
        ctx.tie_broken("go-harness actor.backoffDelay", out)
        outs = outs if len(outs) == len(ins) else []

    # ---- property oracle on the implementation
    n_bad = 0
    series = {}
    for o in outs:
        f, i, m, r = o["F"], o["I"], o["M"], o["R"]
        series.setdefault((i, m), []).append((f, r))
        want = spec(f, i, m)
        bad = None
        if r != want:
            bad = "delay != min(initial*2^(n-1), max): got %d want %d" % (r, want)
        elif m >= 0 and r < 0:
            bad = "negative delay"
        elif m >= 0 and r > m:
            bad = "delay exceeds maximum"
        if bad and n_bad < 5:
            n_bad += 1
            ctx.violation("backoffDelay:closed-form", "backoffDelay(%d, %d, %d): %s" % (f, i, m, bad),
                          {"function": "actor.backoffDelay", "faults": f, "initial_ns": i, "max_ns": m, "got": r, "want": want})
    for (i, m), fr in series.items():
        fr.sort()
        for (f1, r1), (f2, r2) in zip(fr, fr[1:]):
            if m >= 0 and r2 < r1 and n_bad < 5:
                n_bad += 1
                ctx.violation("backoffDelay:monotone", "delay decreases from faults=%d (%d) to faults=%d (%d) with initial=%d max=%d" % (f1, r1, f2, r2, i, m),
                              {"function": "actor.backoffDelay", "initial_ns": i, "max_ns": m, "f1": f1, "r1": r1, "f2": f2, "r2": r2})
    win_checked = 0
    for o in wouts:
        def expect(now):
            return o["Window"] > 0 and o["Last"] > 0 and now - o["Last"] > o["Window"]
        if expect(o["NowLo"]) != expect(o["NowHi"]):
            continue
        win_checked += 1
        want = 1 if expect(o["NowLo"]) else o["Count"] + 1
        if o["Result"] != want or not (o["NowLo"] <= o["StoredLast"] <= o["NowHi"]):
            ctx.violation("recordFault:window", "recordFault(window=%d) with previous fault %d ns ago and counter %d returned %d, want %d" %
                          (o["Window"], o["Age"], o["Count"], o["Result"], want), o)

    # ---- translator validation: Gen/C08.v evaluated on the same inputs
    ok_gen, gen_out = ctx.coq_build(["theories/Gen/C08.vo"]) if ok else (False, "goq failed")
    mism = None
    if ok_gen and outs:
        cases = "; ".join("(%s,%s,%s,%s)" % (zlit(o["F"]), zlit(o["I"]), zlit(o["M"]), zlit(o["R"])) for o in outs)
        def unamb(o):
            e = lambda now: o["Window"] > 0 and o["Last"] > 0 and now - o["Last"] > o["Window"]
            return e(o["NowLo"]) == e(o["NowHi"]) and o["Count"] != 0
        # observed behaviour of the Go function: with a non-zero counter, result 1 <=> the counter was reset
        wcases = "; ".join("(%s,%s,%s,%s)" % (zlit(o["Window"]), zlit(o["Last"]), zlit(o["NowLo"]), "true" if o["Result"] == 1 else "false")
                           for o in wouts if unamb(o))
        body = """From Coq Require Import ZArith List Bool. Import ListNotations.
From GV Require Import Lib.GoInt Gen.C08.
Open Scope Z_scope.
Definition cases : list (Z*Z*Z*Z) := [%s].
Definition wcases : list (Z*Z*Z*bool) := [%s].
Definition mism := filter (fun c => match c with (f,i,m,r) => negb (backoffDelay f i m =? r) end) cases.
Definition wmism := filter (fun c => match c with (w,l,n,b) => negb (Bool.eqb (recordFault_resets w l n) b) end) wcases.
Definition summary := (length cases, length mism, firstn 3 mism, length wcases, length wmism, firstn 3 wmism).
Eval vm_compute in summary.
""" % (cases, wcases)
        rc2, o2 = ctx.coq_eval("cases_C08", body)
        flat = " ".join(o2.split())
        import re
        m_ = re.search(r"= \((\d+)%nat, (\d+)%nat, (\[.*?\]), (\d+)%nat, (\d+)%nat, (\[.*?\])\)", flat)
        if rc2 != 0 or not m_:
            ctx.tie_broken("translator-validation (cases.v did not evaluate)", o2)
        else:
            mism = (int(m_.group(2)), int(m_.group(5)))
            if mism != (0, 0):
                ctx.tie_broken("translator-validation Gen/C08.v vs Go", {"mismatches": mism, "first": [m_.group(3), m_.group(6)]})
    elif ok and not ok_gen:
        ctx.tie_broken("Gen/C08.v does not compile", gen_out)

    # ---- the theorems
    if ok:
        if not ctx.coq_property():
            if not any(f.kind == "violation" for f in ctx.findings):
                ctx.proof_broken("Properties/C08.v (%s)" % getattr(ctx, "failed_at", "?"), getattr(ctx, "coq_log", ""))
            else:
                ctx.notes.append("Coq obligation broken at %s; concrete failing input reported" % getattr(ctx, "failed_at", "?"))

    distinct = {(o["F"], o["I"], o["M"]) for o in outs if o["I"] > 0 and o["F"] >= 1}
    clamped = sum(1 for o in outs if o["I"] > 0 and o["F"] >= 1 and o["R"] == o["M"])
    ctx.coverage.update({
        "evaluations": len(outs) + len(wouts),
        "distinct_nontrivial": len(distinct),
        "rule": "series over faults in {min,-1,0,1..69,100,2^31,2^62,max} for seeded boundary-biased (initial,max) pairs (powers of two +-1, near 2^62/2^63, non-positive); non-trivial = backoff enabled (initial>0, faults>=1), distinct by (faults,initial,max)",
        "samples": outs[:2] + outs[len(outs) // 2: len(outs) // 2 + 2] + wouts[:2],
        "clamped_to_max": clamped, "window_cases_checked": win_checked,
        "translator_validation_mismatches": mism,
        "theorems": ["C08_closed_form", "C08_never_negative", "C08_never_exceeds_max", "C08_never_decreases", "C08_zero_when_disabled", "C08_window_reset"],
    })


META = {
    "ready": True,
    "category": "proof",
    "technique": "Rocq proof over goq-translated Go source + differential translator validation",
    "text": "Six theorems (closed form min(initial*2^(n-1),max) over unbounded Z, non-negativity, <= max, monotone in faults, zero when disabled, window reset) proved for ALL int64 inputs over the Gallina definition that tools/goq regenerates from actor/pid.go on every run; the real Go functions are run on boundary-biased inputs and compared both with the property's closed form and with the generated definition.",
    "design_ref": "DESIGN.md 7/C08",
    "level_note": "Trusted: Coq kernel, goq translator (validated differentially each run), Go compiler. recordFault's time.Now() is bracketed, not substituted.",
}
