"""C46 — stream junctions preserve elements and per-branch order.

Proof:  Properties/C46.v over C46/Model.v (merge/concat/zip source actors and broadcast/balance/partition
        hub actors as state machines, their environments as transition systems; every interleaving,
        every branch count, every source length).
Tie:    (1) black-box: Merge/Concat/Zip of 0..5 sources and Broadcast/Balance/Partition into 1..5 branches
            through the public stream API on a real ActorSystem; verdict by the Coq list specifications
            (C46/Tie.v, vm_compute) on the same graph description;
        (2) actor-step conformance: the real junction actors driven message by message between probes;
            outgoing messages and ledger (demand arrays, pending, buffers, done flags) after every step
            compared with the Coq handlers.
Oracle: independent Python checks (per-source order and multiset union, concatenation, positional tuples
        with length = min, every branch = full sequence, branches partition the input in order, routing by
        the partition function) on every run.
"""
import json
import os
import re

from vlib import read_jsonl, canon_hash
import stream_util as su

LENS = [0, 1, 2, 3, 5, 16, 63, 64, 65, 223, 224, 225, 300, 500]


def tagged_source(rng, i, ln):
    """strictly increasing values with v mod 16 == i"""
    out, k = [], rng.randint(0, 3)
    for _ in range(ln):
        out.append(16 * k + i)
        k += rng.choice([1, 1, 1, 2, 5])
    return out


def increasing(rng, ln):
    out, v = [], rng.randint(-5, 5)
    for _ in range(ln):
        out.append(v)
        v += rng.choice([1, 1, 1, 2, 3, 7])
    return out


CORPUS = [
    {"kind": "merge", "sources": []},
    {"kind": "concat", "sources": []},
    {"kind": "zip", "sources": [[0, 16, 32], [1], [2, 18]]},
    {"kind": "zip", "sources": [[0, 16, 32], []]},
    {"kind": "concat", "sources": [[], [1, 17], [], [3]]},
    {"kind": "merge", "sources": [[16 * k for k in range(300)], [16 * k + 1 for k in range(3)]]},
    {"kind": "broadcast", "input": list(range(1, 301)), "n": 3},
    {"kind": "balance", "input": list(range(1, 500)), "n": 4},
    {"kind": "partition", "input": list(range(1, 400)), "n": 3, "mod": 3},
    {"kind": "partition", "input": list(range(1, 60)), "n": 2, "mod": 3},
    {"kind": "broadcast", "input": [], "n": 2},
]


def gen_cases(ctx):
    rng = ctx.rng
    n = 300 if ctx.thorough else 75
    cases = [dict(c) for c in CORPUS]
    while len(cases) < n:
        kind = rng.choice(["merge", "concat", "zip", "broadcast", "balance", "partition"])
        big = rng.random() < 0.3
        if kind in ("merge", "concat", "zip"):
            k = rng.choice([0, 1, 2, 2, 3, 3, 4, 5])
            srcs = [tagged_source(rng, i, rng.choice(LENS if big else LENS[:8])) for i in range(k)]
            cases.append({"kind": kind, "sources": srcs})
        else:
            k = rng.choice([1, 2, 2, 3, 3, 4, 5])
            c = {"kind": kind, "input": increasing(rng, rng.choice(LENS if big else LENS[:9])), "n": k}
            if kind == "partition":
                c["mod"] = rng.choice([k, k, k, k + 1, max(1, k - 1)])
            cases.append(c)
    # paced scenarios: large sources, a consumer that stalls and refills in chunks, sources that keep producing
    for _ in range(12 if ctx.thorough else 5):
        kind = rng.choice(["merge", "concat", "zip", "zip"])
        k = rng.choice([2, 2, 3])
        srcs = [tagged_source(rng, i, rng.choice([400, 700, 1000, 1500])) for i in range(k)]
        c = {"kind": kind, "sources": srcs, "stall_every": rng.choice([20, 50, 100, 160]), "stall_ms": rng.choice([2, 5, 10]),
             "pace_every": [rng.choice([0, 16, 40, 64]) for _ in range(k)], "pace_us": [rng.choice([200, 500, 1500]) for _ in range(k)], "paced": True}
        if kind == "zip":
            c["pace_every"][rng.randrange(k)] = 0          # one input runs ahead
        cases.append(c)
    for i, c in enumerate(cases):
        c["id"] = i
    return cases


def py_verdict(c, r):
    """independent oracle; None or a reason"""
    if not r["done"]:
        return "stall: the graph did not terminate"
    if any(t != 1 for t in r["terminals"]):
        return "terminal-count: branch sinks handled %s terminal signals" % r["terminals"]
    if r.get("err"):
        return "wrong-terminal: error %s on an error-free graph" % r["err"]
    k = c["kind"]
    if k == "merge":
        out = r["items"]
        if len(out) != sum(len(s) for s in c["sources"]):
            return "elements: merged %d elements of %d" % (len(out), sum(len(s) for s in c["sources"]))
        for i, s in enumerate(c["sources"]):
            if [v for v in out if v % 16 == i] != s:
                return "order: source %d is not delivered completely and in its own order" % i
    elif k == "concat":
        want = [v for s in c["sources"] for v in s]
        if r["items"] != want:
            return "elements: concat delivered %d elements, want %d%s" % (
                len(r["items"]), len(want), " (same multiset, wrong order)" if sorted(r["items"]) == sorted(want) else "")
    elif k == "zip":
        m = min([len(s) for s in c["sources"]], default=0)
        want = [[s[j] for s in c["sources"]] for j in range(m)]
        if r["items"] != want:
            return "elements: zip delivered %d tuples, want %d positional tuples" % (len(r["items"]), len(want))
    elif k == "broadcast":
        for i, b in enumerate(r["branches"]):
            if b != c["input"]:
                return "elements: broadcast branch %d got %d of %d elements%s" % (
                    i, len(b), len(c["input"]), " in a different order" if sorted(b) == sorted(c["input"]) else "")
    elif k == "balance":
        allv = sorted(v for b in r["branches"] for v in b)
        if allv != c["input"]:
            return "elements: balance delivered %d elements in total of %d (each element must reach exactly one branch)" % (len(allv), len(c["input"]))
        for i, b in enumerate(r["branches"]):
            if b != sorted(b):
                return "order: balance branch %d is not in source order" % i
    elif k == "partition":
        for i, b in enumerate(r["branches"]):
            if b != [v for v in c["input"] if v % c["mod"] == i]:
                return "elements: partition branch %d does not hold exactly the elements routed to it, in order" % i
    return None


# ---- step scripts
def gen_fan_script(rng, kind, n, steps, malformed):
    script = []
    left = [rng.randint(0, 4) for _ in range(n)]     # values each slot still sends
    done = [False] * n
    spawned = 1
    for _ in range(steps):
        r = rng.random()
        if n == 0 or r < 0.35:
            script.append({"t": "req", "n": rng.choice([1, 1, 2, 3, 224])})
            continue
        live = [i for i in range(n) if not done[i] and (kind != "concat" or i < spawned)]
        if malformed and rng.random() < 0.2:
            i = rng.randrange(n)
            script.append(rng.choice([{"t": "val", "slot": i, "v": 16 * rng.randint(0, 9) + i}, {"t": "done", "slot": i}]))
            continue
        if not live:
            script.append({"t": "req", "n": rng.choice([1, 2, 224])})
            continue
        i = rng.choice(live)
        if left[i] > 0 and rng.random() < 0.8:
            left[i] -= 1
            script.append({"t": "val", "slot": i, "v": 16 * rng.randint(0, 40) + i})
        elif left[i] == 0 or malformed:
            done[i] = True
            spawned = min(n, spawned + 1)
            script.append({"t": "done", "slot": i})
        if rng.random() < 0.02:
            script.append({"t": "cancel"})
    return script


def gen_hub_script(rng, n, steps, malformed):
    script = []
    v = 0
    for _ in range(steps):
        r = rng.random()
        if r < 0.4:
            script.append({"t": "demand", "slot": rng.randrange(n), "n": rng.choice([1, 1, 2, 3, 5, 224])})
        elif r < 0.9:
            v += rng.choice([1, 2, 3])
            script.append({"t": "elem", "v": v})
        elif r < 0.94:
            script.append({"t": "complete"})
        elif r < 0.96:
            script.append({"t": "error"})
        elif malformed or r < 0.98:
            script.append({"t": "scancel", "slot": rng.randrange(n)})
    return script


STEP_CORPUS = [
    {"kind": "balance", "n": 2, "script": [{"t": "demand", "slot": 0, "n": 2}, {"t": "demand", "slot": 1, "n": 1},
                                            {"t": "elem", "v": 1}, {"t": "elem", "v": 2}, {"t": "elem", "v": 3}, {"t": "complete"}]},
    {"kind": "zip", "n": 2, "script": [{"t": "req", "n": 5}, {"t": "val", "slot": 0, "v": 0}, {"t": "val", "slot": 0, "v": 16},
                                        {"t": "val", "slot": 1, "v": 1}, {"t": "done", "slot": 1}, {"t": "val", "slot": 0, "v": 32}]},
    {"kind": "concat", "n": 2, "script": [{"t": "val", "slot": 0, "v": 0}, {"t": "done", "slot": 0}, {"t": "val", "slot": 1, "v": 1},
                                           {"t": "done", "slot": 1}, {"t": "req", "n": 1}, {"t": "req", "n": 1}]},
    {"kind": "merge", "n": 0, "script": [{"t": "req", "n": 1}]},
]


def gen_queue_cases(ctx):
    """long push/pop patterns for the FIFO queue type: backlog, partial drain (so that a dead prefix stays parked
       at the front), more pushes across capacity boundaries, full drains, random mixes"""
    rng = ctx.rng
    cases = []
    n = 60 if ctx.thorough else 24
    for ci in range(n):
        ops, size, nextv = [], 0, 0

        def push(k):
            nonlocal size, nextv
            for _ in range(k):
                ops.append(nextv)
                nextv += 1
            size += k

        def pop(k):
            nonlocal size
            k = min(k, size)
            ops.extend([-1] * k)
            size -= k
        for _phase in range(rng.randint(3, 9)):
            style = rng.random()
            if style < 0.45:
                push(rng.choice([1, 7, 40, 64, 100, 200, 256, 300, 513, 700]))
                pop(rng.choice([0, 1, 15, 16, 17, 20, 31, 60]) if size else 0)      # partial drain: head stays > 0
                push(rng.choice([1, 10, 36, 56, 57, 120, 260]))                        # crosses len == cap
            elif style < 0.7:
                pop(size // 2 + rng.choice([-2, -1, 0, 1]))                           # around pop's own compaction point
                push(rng.randint(1, 30))
            elif style < 0.85:
                pop(size)
                push(rng.randint(0, 5))
            else:
                for _ in range(rng.randint(10, 200)):
                    if size and rng.random() < 0.45:
                        pop(1)
                    else:
                        push(1)
        pop(size)
        cases.append({"id": ci, "ops": ops})
    return cases


def queue_oracle(c, r):
    from collections import deque
    q, want = deque(), []
    for op in c["ops"]:
        if op >= 0:
            q.append(op)
            want.append(len(q))
        elif q:
            want += [q.popleft(), len(q)]
        else:
            want += [-1, 0]
    if r["obs"] != want:
        i = next(i for i, (a, b) in enumerate(zip(r["obs"] + [None], want + [None])) if a != b)
        return "queue is not FIFO: observation %d is %s, a FIFO gives %s (after %d operations)" % (i, (r["obs"] + [None])[i], (want + [None])[i], len(c["ops"]))
    return None


def gen_long_fan_script(rng, kind, n):
    """a backlog inside the junction actor, drained in small demand chunks while the sources keep delivering"""
    script, left = [], [rng.randint(150, 420) for _ in range(n)]
    nextk = [0] * n
    sent = 0
    total = sum(left)
    cur = 0
    while sum(left) > 0:
        # a burst of values (for zip: mostly one slot running ahead; concat: the active slot only)
        burst = rng.choice([20, 56, 64, 100, 200, 260])
        for _ in range(burst):
            live = [i for i in range(n) if left[i] > 0]
            if not live:
                break
            if kind == "concat":
                i = live[0]
            elif kind == "zip" and rng.random() < 0.85:
                i = live[cur % len(live)]
            else:
                i = rng.choice(live)
            script.append({"t": "val", "slot": i, "v": 16 * nextk[i] + i})
            nextk[i] += 1
            left[i] -= 1
            if left[i] == 0:
                script.append({"t": "done", "slot": i})
        cur += 1
        script.append({"t": "req", "n": rng.choice([16, 17, 20, 24, 31, 40])})     # small chunk: partial drain
    script.append({"t": "req", "n": total + 5})
    return script


def gen_step_cases(ctx):
    rng = ctx.rng
    n = 1000 if ctx.thorough else 300
    cases = [dict(c) for c in STEP_CORPUS]
    while len(cases) < n:
        kind = rng.choice(["merge", "concat", "zip", "broadcast", "balance", "balance", "partition"])
        malformed = rng.random() < 0.15
        if kind in ("merge", "concat", "zip"):
            k = rng.choice([0, 1, 2, 2, 3, 4, 5])
            c = {"kind": kind, "n": k, "script": gen_fan_script(rng, kind, k, rng.randint(3, 30), malformed)}
        else:
            k = rng.choice([1, 2, 2, 3, 4, 5])
            c = {"kind": kind, "n": k, "script": gen_hub_script(rng, k, rng.randint(3, 30), malformed)}
            if kind == "partition":
                c["mod"] = rng.choice([k, k, k + 1])
        cases.append(c)
    for kind in ["merge", "concat", "zip", "zip", "merge", "zip"] * (2 if ctx.thorough else 1):
        k = rng.choice([1, 2, 2, 3])
        cases.append({"kind": kind, "n": k, "script": gen_long_fan_script(rng, kind, k), "long": True})
    for i, c in enumerate(cases):
        c["id"] = i
    return cases


def coq_msg(kind, m):
    t = m["t"]
    if t == "req":
        return "FReq %s" % su.zl(m["n"])
    if t == "val":
        return "FVal %d%%nat %s" % (m.get("slot", 0), su.zl(m["v"]))
    if t == "done":
        return "FDone %d%%nat" % m.get("slot", 0)
    if t == "cancel":
        return "FCancel"
    if t == "demand":
        return "HDemand %d%%nat %s" % (m.get("slot", 0), su.zl(m["n"]))
    if t == "elem":
        return "HElem %s" % su.zl(m["v"])
    if t == "complete":
        return "HComplete"
    if t == "error":
        return "HError"
    if t == "scancel":
        return "HCancel %d%%nat" % m.get("slot", 0)
    raise ValueError(t)


def step_model_term(c, ns=False):
    script = "[" + "; ".join(coq_msg(c["kind"], m) for m in c["script"]) + "]"
    k = c["kind"]
    sfx = "_ns" if ns else ""
    if k in ("merge", "concat", "zip"):
        return "steps_%s%s %d%%nat %s" % (k, sfx, c["n"], script)
    hk = {"broadcast": "Broadcast", "balance": "Balance"}.get(k) or "(Partition %s)" % su.zl(c["mod"])
    return "steps_hub%s %s %d%%nat %s" % (sfx, hk, c["n"], script)


def has_nostate(r):
    return any(s.get("state") and s["state"][0] == -424242 for s in r.get("steps") or [])


def enc_obs(r):
    ns = has_nostate(r)
    out = [list(r.get("wire") or [])]
    for s in r.get("steps") or []:
        if s.get("state") is None and not s.get("alive"):
            out.append([0])
        else:
            out.append([1 if s["alive"] else 0] + ([] if ns else list(s["state"] or [])) + [-7] + list(s.get("out") or []))
    return out


def step_oracle(c, r):
    """independent of the model: routing rules of the hubs / FIFO + conservation of the fan-in actors on
       well-formed prefixes. returns reason or None"""
    k, n = c["kind"], c["n"]
    steps = (r.get("steps") or [])[1:]
    if k in ("broadcast", "balance", "partition"):
        demand = [0] * n
        active = [True] * n
        solicited = True
        for m, s in zip(c["script"], steps):
            if s.get("state") is None:
                break
            out = list(s.get("out") or [])
            deliveries = []
            pulls = []
            i = 0
            while i < len(out):
                if out[i] == 30:
                    if out[i + 2] == 10:
                        deliveries.append((out[i + 1], out[i + 3]))
                        i += 4
                    else:
                        i += 3
                elif out[i] == 20:
                    pulls.append(out[i + 1])
                    i += 2
                else:
                    i += 1
            if m["t"] == "demand":
                demand[m["slot"]] += m["n"]
            elif m["t"] == "scancel":
                active[m["slot"]] = False
            elif m["t"] == "elem":
                v = m["v"]
                if k == "broadcast":
                    want = [(i_, v) for i_ in range(n) if active[i_]]
                    if deliveries != want:
                        return "broadcast hub: element %d delivered to %s, want every active slot %s" % (v, deliveries, want)
                elif k == "partition":
                    t_ = v % c["mod"]
                    want = [(t_, v)] if t_ < n and active[t_] else []
                    if deliveries != want:
                        return "partition hub: element %d delivered to %s, want %s" % (v, deliveries, want)
                else:
                    cand = [i_ for i_ in range(n) if active[i_] and demand[i_] > 0]
                    if cand and (len(deliveries) != 1 or deliveries[0][1] != v or deliveries[0][0] not in cand):
                        return "balance hub: element %d delivered to %s although slots %s have demand" % (v, deliveries, cand)
                    if not cand and deliveries:
                        return "balance hub: element %d delivered to a slot without demand" % v
                for (sl, _v) in deliveries:
                    demand[sl] -= 1
            # what the hub asks from upstream must be covered by the demand the branches have signalled
            # (only while the script is well-formed: an unsolicited element makes the ledger negative)
            if any(d < 0 for d in demand):
                solicited = False
            act = [demand[i_] for i_ in range(n) if active[i_]]
            for p_ in (pulls if solicited else []):
                cap = sum(act) if k == "balance" else (min(act) if act else 0)
                if p_ > max(cap, 0):
                    return "%s hub requested %d elements from upstream while the branches' outstanding demand only covers %d" % (k, p_, max(cap, 0))
            if not s["alive"]:
                break
        return None
    # fan-in: elements leave in arrival order (merge/concat), never beyond demand
    demand = 0
    arrived, sent = [], []
    dones = 0
    for m, s in zip(c["script"], steps):
        if s.get("state") is None:
            break
        if m["t"] == "req":
            demand += m["n"]
        elif m["t"] == "val":
            arrived.append(m["v"])
        elif m["t"] == "done":
            dones += 1
        if k == "concat" and n > 0 and len(s["state"]) >= 3 and s["state"][2] > min(n, dones + 1):
            return "concat source has spawned %d sub-pipelines after only %d of them completed (sources would interleave)" % (s["state"][2], dones)
        out = list(s.get("out") or [])
        i = 0
        while i < len(out):
            if out[i] == 10:
                sent.append(out[i + 1])
                demand -= 1
                i += 2
            elif out[i] == 13:
                sent.append(out[i + 2:i + 2 + out[i + 1]])
                demand -= 1
                i += 2 + out[i + 1]
            else:
                i += 1
        if demand < 0:
            return "%s source emitted beyond downstream demand" % k
        if not s["alive"]:
            break
    if k in ("merge", "concat") and sent != arrived[:len(sent)]:
        i = next(i for i, (a, b) in enumerate(zip(sent, arrived)) if a != b) if len(sent) <= len(arrived) else len(arrived)
        return "%s source does not forward values in arrival order: output %d is %s, value number %d to arrive was %s" % (
            k, i, sent[i], i, arrived[i] if i < len(arrived) else None)
    if k == "zip" and n > 0:
        per = [[m["v"] for m in c["script"][:len(steps)] if m["t"] == "val" and m.get("slot", 0) == i_] for i_ in range(n)]
        for j, tup in enumerate(sent):
            want = [per[i_][j] if j < len(per[i_]) else None for i_ in range(n)]
            if tup != want:
                return "zip source: tuple %d is %s, the %d-th values delivered by the sources are %s" % (j, tup, j, want)
    return None


def run(ctx):
    ctx.trusted += ["Go harness go/inpkg/stream/zz_verif_C46_test.go (+ probe helpers of zz_verif_C45_test.go)",
                    "actor runtime (mailbox FIFO per sender) — modelled as FIFO feeds per sub-pipeline",
                    "the linear sub-pipelines feeding / leaving a junction (C45)"]
    ctx.assumptions += ["no branch cancels and no sub-pipeline fails (error-free graphs)",
                        "the upstream of a hub delivers at most what the hub requested (C45 demand protocol)",
                        "Partition function is total; out-of-range results are dropped as documented"]
    cases = gen_cases(ctx)
    scases = gen_step_cases(ctx)
    with open(os.path.join(ctx.work, "c46_in.jsonl"), "w") as f:
        for c in cases:
            f.write(json.dumps(c) + "\n")
    with open(os.path.join(ctx.work, "c46_steps_in.jsonl"), "w") as f:
        for c in scases:
            f.write(json.dumps(c) + "\n")
    qcases = gen_queue_cases(ctx)
    with open(os.path.join(ctx.work, "c46_queue_in.jsonl"), "w") as f:
        for c in qcases:
            f.write(json.dumps(c) + "\n")
    for fn in ("c46_out.jsonl", "c46_steps_out.jsonl", "c46_out2.jsonl", "c46_queue_out.jsonl"):
        p = os.path.join(ctx.work, fn)
        if os.path.exists(p):
            os.remove(p)
    files = ["zz_verif_C46_test.go", "zz_verif_C45_test.go"]
    rc, out = ctx.go_test("stream", "^TestVerifC46", files, env={"VERIF_PAR": "1"}, timeout=2400 if ctx.thorough else 1500)
    res = {r["id"]: r for r in read_jsonl(os.path.join(ctx.work, "c46_out.jsonl"))}
    sres = {r["id"]: r for r in read_jsonl(os.path.join(ctx.work, "c46_steps_out.jsonl"))}
    qres = {r["id"]: r for r in read_jsonl(os.path.join(ctx.work, "c46_queue_out.jsonl"))}
    if rc != 0 or len(res) != len(cases) or len(sres) != len(scases) or len(qres) != len(qcases):
        ctx.tie_broken("go-harness stream junctions (build or run failed)", out)
    slow = [c for c in cases if c["id"] in res and not res[c["id"]]["done"]]
    if slow and len(slow) <= 12:
        with open(os.path.join(ctx.work, "c46_in2.jsonl"), "w") as f:
            for c in slow:
                f.write(json.dumps(c) + "\n")
        ctx.go_test("stream", "^TestVerifC46Graphs", files, env={"VERIF_PAR": "1", "C46_IN": "c46_in2.jsonl", "C46_OUT": "c46_out2.jsonl",
                                                                  "VERIF_CASE_TIMEOUT_MS": "45000"}, timeout=900)
        for r in read_jsonl(os.path.join(ctx.work, "c46_out2.jsonl")):
            res[r["id"]] = r
        ctx.coverage["reruns_after_timeout"] = len(slow)
    ctx.log("go harness done: %d graphs, %d step cases" % (len(res), len(sres)))

    n_viol = 0
    bad_py = {}
    for c in cases:
        r = res.get(c["id"])
        if r is None:
            continue
        why = py_verdict(c, r)
        if why:
            bad_py[c["id"]] = why
            if n_viol < 6:
                n_viol += 1
                ctx.violation("junction:%s:%s" % (c["kind"], why.split(":")[0]),
                              "%s with %s: %s" % (c["kind"], ("sources of lengths %s" % [len(s) for s in c["sources"]]) if "sources" in c
                                                  else "%d branches over %d elements" % (c["n"], len(c["input"])), why),
                              {"graph": c, "observed": r})
    for c in scases:
        r = sres.get(c["id"])
        if r is None:
            continue
        why = step_oracle(c, r)
        if why and n_viol < 10:
            n_viol += 1
            ctx.violation("junction-actor:%s" % c["kind"], "%s actor driven step by step: %s" % (c["kind"], why),
                          {"case": c, "observed": r})

    n_q = 0
    for c in qcases:
        r = qres.get(c["id"])
        if r is None:
            continue
        why = queue_oracle(c, r)
        if why and n_q < 2:
            n_q += 1
            ctx.violation("junction-queue:fifo", "stream.queue (buffer of Merge/Concat/Zip) driven sequentially: " + why,
                          {"ops (v>=0 push v, -1 pop)": c["ops"], "observed": r["obs"][:400]})

    ok_tie, tout = ctx.coq_build(["theories/C46/Tie.vo"])
    if not ok_tie:
        ctx.tie_broken("C46/Model.v or C46/Tie.v does not compile", tout)
    elif res and sres:
        zll = lambda xss: "[" + "; ".join(su.coq_zlist(x) for x in xss) + "]"
        lines = []
        for c in cases:
            r = res.get(c["id"])
            if r is None:
                continue
            k = c["kind"]
            okflag = "true" if (r["done"] and all(t == 1 for t in r["terminals"]) and not r.get("err")) else "false"
            if k == "merge":
                t = "merge_ok %s %s" % (zll(c["sources"]), su.coq_zlist(r["items"]))
            elif k == "concat":
                t = "concat_ok %s %s" % (zll(c["sources"]), su.coq_zlist(r["items"]))
            elif k == "zip":
                t = "zip_ok %s %s" % (zll(c["sources"]), zll(r["items"]))
            elif k == "broadcast":
                t = "broadcast_ok %s %s" % (su.coq_zlist(c["input"]), zll(r["branches"]))
            elif k == "balance":
                t = "balance_ok %s %s" % (su.coq_zlist(c["input"]), zll(r["branches"]))
            else:
                t = "partition_ok %s %s %s" % (su.zl(c["mod"]), su.coq_zlist(c["input"]), zll(r["branches"]))
            lines.append("(%d, %s && %s)" % (c["id"], okflag, t))
        slines = []
        for c in scases:
            r = sres.get(c["id"])
            if r is None:
                continue
            slines.append("(%d, zll_eqb (%s) %s)" % (c["id"], step_model_term(c, has_nostate(r)), zll(enc_obs(r))))
        qlines = []
        for c in qcases:
            r = qres.get(c["id"])
            if r is None:
                continue
            ops = "[" + "; ".join("QPop" if o < 0 else "QPush %d" % o for o in c["ops"]) + "]"
            qlines.append("(%d, zl_eqb (qrun [] %s) %s)" % (c["id"], ops, su.coq_zlist(r["obs"])))
        body = """From Coq Require Import ZArith List Bool. Import ListNotations.
From GV Require Import C46.Model C46.Tie.
Open Scope Z_scope.
Definition graphs : list (Z * bool) := [%s].
Definition steps : list (Z * bool) := [%s].
Definition queues : list (Z * bool) := [%s].
Definition summary :=
  (length graphs, map fst (filter (fun x => negb (snd x)) graphs),
   length steps, (map fst (filter (fun x => negb (snd x)) steps)) ++ (map (fun x => 100000 + fst x) (filter (fun x => negb (snd x)) queues))).
Eval vm_compute in summary.
""" % (";\n ".join(lines), ";\n ".join(slines), ";\n ".join(qlines))
        rc2, o2 = ctx.coq_eval("cases_C46", body, timeout=900)
        m_ = re.search(r"=\s*(\(.*\))\s*:", " ".join(o2.split()))
        if rc2 != 0 or not m_:
            ctx.tie_broken("model evaluation (cases_C46.v did not evaluate)", o2)
        else:
            _ng, bad_graphs, _ns, bad_steps = su.parse_coq_value(m_.group(1))
            ctx.coverage["model_rejects_graphs"] = len(bad_graphs)
            ctx.coverage["model_step_mismatches"] = len(bad_steps)
            dis = sorted(set(bad_graphs) ^ set(bad_py))
            if dis:
                ctx.tie_broken("Coq junction specifications vs Python oracle disagree", {"ids": dis[:10], "case": cases[dis[0]]})
            bad_q = [b - 100000 for b in bad_steps if b >= 100000]
            bad_steps = [b for b in bad_steps if b < 100000]
            if bad_q:
                ctx.tie_broken("queue conformance stream.queue vs the list model (C46/Tie.v qrun)", {"cases": bad_q[:5]})
            if bad_steps:
                c = scases[bad_steps[0]]
                rc3, o3 = ctx.coq_eval("diag_C46", """From Coq Require Import ZArith List Bool. Import ListNotations.
From GV Require Import C46.Model C46.Tie.
Open Scope Z_scope.
Eval vm_compute in (%s).
""" % step_model_term(c, has_nostate(sres[c["id"]])))
                ctx.tie_broken("actor-step conformance %s vs C46/Model.v" % c["kind"],
                               {"mismatching_cases": len(bad_steps), "first_case": c, "implementation": enc_obs(sres[c["id"]]),
                                "model": " ".join(o3.split())[-3000:]})
    ctx.log("model evaluation done")

    if not ctx.coq_property():
        if not any(f.kind == "violation" for f in ctx.findings):
            ctx.proof_broken("Properties/C46.v (%s)" % getattr(ctx, "failed_at", "?"), getattr(ctx, "coq_log", ""))
        else:
            ctx.notes.append("Coq obligation broken at %s; concrete failing input reported" % getattr(ctx, "failed_at", "?"))

    kinds, skinds, branches = {}, {}, {}
    distinct = set()
    for c in cases:
        kinds[c["kind"]] = kinds.get(c["kind"], 0) + 1
        b = len(c["sources"]) if "sources" in c else c["n"]
        branches[b] = branches.get(b, 0) + 1
        if (c.get("sources") and any(c["sources"])) or c.get("input"):
            distinct.add(canon_hash(c))
    for c in scases:
        skinds[c["kind"]] = skinds.get(c["kind"], 0) + 1
        distinct.add(canon_hash([c["kind"], c["n"], c["script"]]))
    ctx.coverage.update({
        "evaluations": len(res) + sum(len(r.get("steps") or []) for r in sres.values()) + sum(len(c["ops"]) for c in qcases),
        "queue_cases": len(qcases), "queue_ops": sum(len(c["ops"]) for c in qcases),
        "distinct_nontrivial": len(distinct),
        "rule": "black-box: seeded graphs, 0..5 sources / 1..5 branches, lengths 0,1,..,demand window 224+-1,500; non-trivial = at least one element; step: scripts of 3..30 messages per junction actor, distinct by (kind, n, script)",
        "graphs_by_kind": kinds, "branch_count_histogram": branches, "step_cases_by_kind": skinds,
        "samples": [cases[len(CORPUS)] if len(cases) > len(CORPUS) else cases[0], scases[len(STEP_CORPUS)]],
        "theorems": THEOREMS,
    })


THEOREMS = ["C46_merge_is_an_interleaving", "C46_concat_is_append", "C46_zip_is_positional", "C46_hub_routes_every_element", "C46_queue_is_fifo"]

META = {
    "ready": True,
    "category": "proof",
    "technique": "Rocq proof over hand-written state-machine models of the junction actors and their environments + black-box and actor-step conformance",
    "text": "mergeSourceActor, concatSourceActor, zipNSourceActor and the broadcast/balance/partition hub actors modelled as handlers mirroring the Go Receive "
            "methods (buffers, demand arrays, pending, done flags, round-robin cursor); environments (sub-pipeline feeds FIFO per slot, demand-respecting upstream, "
            "branch demand) as transition systems. Proved for every interleaving, every number of branches and every source length: Merge output projected on "
            "source i is a prefix of / at completion equal to source i and every element belongs to a source; Concat = ++; Zip tuple k = k-th elements, count = "
            "shortest source at completion; hubs never drop, never serve a branch beyond its demand, Broadcast gives every branch the consumed prefix, Balance routes "
            "each element to exactly one branch, Partition routes v to branch v mod m; completion signalled at most once. Every run: ~75 junction graphs (0..5 sources / "
            "1..5 branches, lengths around the demand window) through the public API judged by the Coq specifications (vm_compute) and by independent Python checks; "
            "~300 message scripts (plus long backlog/partial-drain scripts of several hundred messages) driven through the REAL junction actors between probes, every step compared with the Coq handlers; "
            "the real stream.queue type driven through long push/pop patterns against the list model; paced graphs (stalling consumer, sources of 400..1500 elements that keep producing).",
    "design_ref": "DESIGN.md 7/C46",
    "level_note": "Trusted: Coq kernel, the Go harness, per-sender FIFO of the actor runtime, the linear sub-pipelines (C45). Assumes error-free graphs without branch cancellation "
                  "(with a cancelling branch Balance/Partition drop the elements already requested on its behalf - observed, not part of the property). Liveness is checked per run by the stall oracle only.",
}
