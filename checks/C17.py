"""C17 — stopping the actor system tears down every actor exactly once.

Proof:  Properties/C17.v over C17/Model.v (ActorSystem.Stop: shutting-down gate, user guardian subtree =
        C09's stop protocol, poisonAllGrains, sends) and C06/Model.v for the per-actor handler view.
Tie:    generated populations (trees below the user guardian, grains, traffic, a SpawnChild in flight,
        a handler held) on real actor systems, then Stop; observation after every driver action compared
        with the Coq model (cases.v + vm_compute). C09's and C06's ties cover the tree protocol and the
        per-actor lifecycle in detail.
Oracle: on the recorded events: PostStop exactly once per user actor that was running, children before
        parents, OnDeactivate exactly once per activation, no handler after Stop returned, sends after
        Stop fail.
"""
import json
import os
import re

from vlib import read_jsonl, canon_hash

import c17_util as U

THEOREMS = ["C17_user_poststop_at_most_once", "C17_user_tree_stopped_repaired", "C17_children_first_repaired",
            "C17_user_tree_stopped_partial", "C17_every_user_actor_stopped", "C17_spawn_during_stop_refuted", "C17_grain_deactivated_at_most_once",
            "C17_grains_all_deactivated", "C17_sends_after_gate_rejected", "C17_gate_closed_during_stop", "C17_send_to_stopped_actor_fails",
            "C17_handler_outlives_stop_refuted", "C17_no_handler_during_poststop_partial"]


def nl(l):
    return "[" + ";".join(str(x) for x in l) + "]"


def nll(ll):
    return "[" + ";".join(nl(l) for l in ll) + "]"


def oracle(sc, out):
    ev = out["events"]
    found = []
    t = {}
    cnt = {}
    for e in ev:
        key = (e["who"], e["kind"])
        cnt[key] = cnt.get(key, 0) + 1
        t.setdefault(key, e["seq"])
    stop_b = t.get(("driver", "stop_begin"))
    stop_e = t.get(("driver", "stop_end"))
    if stop_b is None or stop_e is None:
        return found
    par = {}
    gated = set()
    for d in sc["actions"]:
        if d[0] in ("spawn", "spawn_gated"):
            par[d[2]] = d[1]
            if d[0] == "spawn_gated":
                gated.add(d[2])
    # actors whose spawn completed (successfully) before Stop began
    ok_before = set()
    in_flight = set()
    for c in par:
        who = "a%d" % c
        rets = [e for e in ev if e["who"] == who and e["kind"] == "spawnret"]
        call = t.get((who, "spawncall"))
        if rets and not rets[0].get("err") and rets[0]["seq"] < stop_b:
            ok_before.add(c)
        elif call is not None and call < stop_b and (not rets or rets[0]["seq"] > stop_b):
            in_flight.add(c)
    for c in sorted(ok_before):
        who = "a%d" % c
        n_post = cnt.get((who, "postB"), 0)
        if n_post != 1:
            found.append(("poststop-count", "user actor %s was running when Stop was called and its PostStop ran %d times" % (who, n_post), {"actor": c}))
        te = t.get((who, "postE"))
        if te is not None and te > stop_e:
            found.append(("poststop-after-stop-returned", "PostStop of %s completed (seq %d) after Stop returned (seq %d)" % (who, te, stop_e), {"actor": c}))
        p = par[c]
        if p != 0 and p in ok_before:
            tb_p = t.get(("a%d" % p, "postB"))
            if tb_p is not None and (te is None or te > tb_p):
                found.append(("children-first", "PostStop of parent a%d began (seq %d) before PostStop of child %s completed (%s)" % (p, tb_p, who, te), {"parent": p, "child": c}))
    for c in sorted(in_flight):
        who = "a%d" % c
        if cnt.get((who, "pre"), 0) >= 1 and cnt.get((who, "postB"), 0) == 0:
            found.append(("running-actor-after-stop:spawnchild-in-flight",
                          "%s: SpawnChild was in flight when Stop was called; its PreStart completed and it was never stopped" % who, {"actor": c}))
    # grains
    for g in range(sc["k"]):
        who = "g%d" % g
        a, d_ = cnt.get((who, "act"), 0), cnt.get((who, "deact"), 0)
        if a != d_:
            found.append(("grain-deactivation-count", "grain %s: OnActivate ran %d times, OnDeactivate %d times by the end of Stop" % (who, a, d_), {"grain": g}))
        last_deact = max([e["seq"] for e in ev if e["who"] == who and e["kind"] == "deact"] or [0])
        if last_deact > stop_e:
            found.append(("grain-deactivated-after-stop-returned", "grain %s deactivated after Stop returned" % who, {"grain": g}))
    # handlers
    release = t.get(("driver", "release_all"), 10 ** 18)
    starts_after = {}
    for e in ev:
        if e["kind"] == "recvB" and e["seq"] > stop_e:
            starts_after[e["who"]] = starts_after.get(e["who"], 0) + 1
    for who, c in sorted(starts_after.items()):
        if c >= 2:
            # one handler start after Stop can be the worker that read the behaviour before reset(); a
            # backlog that keeps being handled cannot
            found.append(("backlog-handled-after-stop", "%s: %d handlers STARTED after Stop returned (seq %d): the queued backlog of a stopped actor keeps being handled" % (who, c, stop_e), {"who": who, "starts": c}))
        else:
            found.append(("receive-started-after-stop-returned", "%s: a Receive started after Stop returned (seq %d)" % (who, stop_e), {"who": who}))
    open_recv = {}
    for e in ev:
        if e["seq"] > stop_e:
            break
        if e["kind"] == "recvB":
            open_recv[e["who"]] = e["seq"]
        elif e["kind"] == "recvE":
            open_recv.pop(e["who"], None)
    for who, sq in sorted(open_recv.items()):
        found.append(("handler-outlives-stop:offturn-shutdown", "%s: the handler that began at seq %d was still running when Stop returned (seq %d)" % (who, sq, stop_e), {"who": who}))
    # sends after Stop
    seen_stop = False
    for d, st in zip(sc["actions"], out["steps"]):
        if d[0] == "stop":
            seen_stop = True
        elif seen_stop and d[0] in ("tell", "tell_hold") and st["f"] == 0 and cnt.get(("a%d" % d[1], "postE"), 0) >= 1:
            found.append(("send-accepted-after-stop", "Tell to the stopped actor a%d after Stop returned was accepted" % d[1], {"actor": d[1]}))
    return found


def run(ctx):
    ctx.trusted += ["hand-written Gallina models C17/Model.v (tied each run), C09/StopModel.v and C06/Model.v (tied by their own checks)",
                    "Go runtime scheduler for everything between two driver actions (Stop is called synchronously)"]
    ctx.assumptions += ["grain activation is atomic with respect to Stop (an activation in flight while Stop runs is not modelled)",
                        "the passivation manager is stopped before the user guardian (as shutdown does), so no passivation races Stop",
                        "hooks return nil; single node (no cluster, no remoting)"]
    scs = U.gen_scenarios(ctx, True)
    with open(os.path.join(ctx.work, "c17_in.jsonl"), "w") as f:
        for c in scs:
            f.write(json.dumps({k: c[k] for k in ("n", "k", "gated", "pass_grains", "actions", "expect")}) + "\n")
    outp = os.path.join(ctx.work, "c17_out.jsonl")
    for pth in (outp, os.path.join(ctx.work, "c17_gate_out.jsonl")):
        if os.path.exists(pth):
            os.remove(pth)
    rc, out = ctx.go_test("actor", "^TestVerifC17", ["zz_verif_C17_test.go"])
    ctx.log("go harness done rc=%s" % rc)
    outs = read_jsonl(outp)
    if rc != 0 or len(outs) != len(scs):
        ctx.tie_broken("go-harness C17 (system stop populations)", out)
    seen = {}
    gate = read_jsonl(os.path.join(ctx.work, "c17_gate_out.jsonl"))
    if not gate:
        ctx.tie_broken("go-harness C17 gate probe produced no output", out)
    for go_ in gate:
        if not (go_["checked_running"] and go_["system_stopping_seen"]):
            ctx.tie_broken("C17 gate probe could not set up its schedule", go_)
        elif go_["recv_during_shutdown"] > 0:
            ctx.violation("send-enqueued-during-shutdown",
                          "a send enqueued while Stop was in progress (gate closed) reached the actor's handler %d time(s)" % go_["recv_during_shutdown"],
                          {"how": "TestVerifC17Gate: PostStop of the actor held, Tell split at its check/enqueue point", "events": go_["events"]})
    n_steps = 0
    hist = {}
    nontrivial = set()
    pop = []
    for sc, o in zip(scs, outs):
        n_steps += len(o["steps"])
        for d in sc["actions"]:
            hist[d[0]] = hist.get(d[0], 0) + 1
        for sig, what, detail in oracle(sc, o):
            if seen.get(sig, 0) < 1:
                seen[sig] = 1
                ctx.violation(sig, what, {"scenario": {k: sc[k] for k in ("n", "k", "gated", "pass_grains", "actions")}, "detail": detail, "events": o["events"],
                                          "how": "TestVerifC17Stop on a real actor system"})
        if sc["n"] >= 4 and any(d[0] == "stop" for d in sc["actions"]):
            nontrivial.add(canon_hash({k: sc[k] for k in ("n", "k", "gated", "pass_grains", "actions")}))
        pop.append((sc["n"] - 1, sc["k"]))
    mism = None
    if outs and len(outs) == len(scs):
        items = []
        for sc, o in zip(scs, outs):
            ds = ";".join(U.coq_action(d) for d in sc["actions"])
            exp = ";".join("(%d,%s)" % (st["f"], nll(st["o"])) for st in o["steps"])
            items.append("(%s,%d,%d,[%s],[%s])" % (nl(sc["gated"]), sc["n"], sc["k"], ds, exp))
        body = """From Coq Require Import List. Import ListNotations.
From GV Require Import C09.StopModel C17.Model.
Definition cases : list (list nat * nat * nat * list daction * list (nat * list (list nat))) := [
%s
].
Definition diffs := combine (seq 0 (length cases)) (map (scenario_diff true) cases).
Definition bad := filter (fun x => match snd x with Some _ => true | None => false end) diffs.
Definition summary := (length cases, length bad, map (fun x => (fst x, match snd x with Some s => s | None => 0 end)) (firstn 3 bad)).
Eval vm_compute in summary.
""" % ";\n".join(items)
        rc2, o2 = ctx.coq_eval("cases_C17", body)
        flat = " ".join(o2.split())
        m = re.search(r"= \((\d+), (\d+), (\[.*?\])\)", flat)
        if rc2 != 0 or not m:
            ctx.tie_broken("C17 model evaluation (cases.v did not evaluate)", o2)
        else:
            mism = int(m.group(2))
            if mism:
                detail = []
                for ci, si in re.findall(r"\((\d+), (\d+)\)", m.group(3)):
                    ci, si = int(ci), int(si)
                    detail.append({"scenario": {k: scs[ci][k] for k in ("n", "k", "gated", "pass_grains", "actions")}, "first_diverging_action_index": si,
                                   "implementation_showed": outs[ci]["steps"][si] if si < len(outs[ci]["steps"]) else None,
                                   "generator_expected": scs[ci]["expect"][si] if si < len(scs[ci]["expect"]) else None})
                ctx.tie_broken("system-stop model vs real actor system (observation after every driver action)", {"mismatching_scenarios": mism, "first": detail})
    ctx.log("model tie evaluated")
    ok_prop = ctx.coq_property()
    ctx.log("coq property built: %s" % ok_prop)
    if not ok_prop:
        if not any(f.kind == "violation" for f in ctx.findings):
            ctx.proof_broken("Properties/C17.v (%s)" % getattr(ctx, "failed_at", "?"), getattr(ctx, "coq_log", ""))
        else:
            ctx.notes.append("Coq obligation broken at %s; concrete failing input reported" % getattr(ctx, "failed_at", "?"))
    ctx.coverage.update({
        "evaluations": n_steps,
        "distinct_nontrivial": len(nontrivial),
        "rule": "scenario non-trivial = at least 3 user actors below the guardian and a Stop; distinct by hash of the canonical scenario",
        "scenarios": len(scs), "steps": n_steps, "wait_timeouts": sum(1 for o_ in outs for s_ in o_["steps"] if s_.get("timeout")), "action_histogram": hist, "model_mismatches": mism, "gate_probe": [{k: g_[k] for k in ("recv_during_shutdown", "checked_running", "system_stopping_seen")} for g_ in gate],
        "populations_actors_grains": pop[:12],
        "samples": [{k: scs[4][k] for k in ("n", "k", "gated", "pass_grains", "actions")}, {k: scs[-1][k] for k in ("n", "k", "gated", "pass_grains", "actions")}],
        "theorems": THEOREMS,
    })


META = {
    "ready": True,
    "category": "proof",
    "technique": "Rocq inductive invariants over hand-written executable models (system stop composed with the C09 stop protocol and the C06 lifecycle) + population conformance on real actor systems",
    "text": "Fourteen theorems over a model of ActorSystem.Stop composed from the C09 stop protocol (user guardian subtree), a grain component (poisonAllGrains, user PoisonPills) and the shutting-down gate, with C06's lifecycle model for the handler view: PostStop at most once per user actor (every interleaving); once userGuardian.Shutdown returned every actor along the children snapshots has completed PostStop, children before parents (every interleaving for the repaired freeChildren, race-free executions before), and EVERY user actor whose spawn has returned — anywhere below the guardian, by the spawn relation — has completed PostStop when no SpawnChild is in flight at a children snapshot (C17_every_user_actor_stopped); OnDeactivate at most once per activation always and exactly once by the time Stop is through; sends while the gate is closed are never enqueued and sends to stopped actors fail after Stop; refutation witnesses for a handler outliving Stop and for a SpawnChild in flight during Stop (open findings). Every run: generated populations (trees, grains, traffic, a held handler, an in-flight SpawnChild) on real actor systems, Stop, observation after every driver action compared with the Coq model (vm_compute), the gate probe, and the property's own oracle on the recorded events. Scenarios also hold individual stops inside PostStop while Stop runs (DKill/DRelease), let a grain passivate (OnDeactivate held) while Stop runs, and leave a backlog queued behind a held handler: PostStop/OnDeactivate at most once, nothing deactivated after Stop returned, at most one handler start after Stop returned.",
    "design_ref": "DESIGN.md 7/C17",
    "level_note": "Trusted: Coq kernel, the hand-written models (tied each run; tree protocol and lifecycle also by C09/C06), Go runtime between driver actions. Not modelled: grain activation in flight during Stop, cluster/remoting shutdown.",
}
