"""C18 — undeliverable messages surface as dead letters exactly once.

Proof:  Properties/C18.v over C18/Model.v (drop sites -> dead-letter actor's mailbox / bounded fan-out queue ->
        handleDeadletter), for arbitrary interleavings of droppers, drain goroutine and dead-letter actor.
Tie:    (A) the in-package harness drives the REAL handleReceivedErrorWithMessage / toDeadletter (through
        Unhandled, a full bounded mailbox, the stopping gate, Ask timeouts, and directly), the REAL
        deliverRemoteTellMessage with every tree branch (fake tree entries), the REAL enqueueCoalescedFailure /
        drainCoalescedFailures and the REAL dead-letter actor on generated op sequences; after every op it records
        the dead-letter actor's own Publish calls, its counter (through DeadlettersCountRequest and the raw field),
        the fan-out queue length; the Coq model is evaluated on the same sequences (cases.v + vm_compute) and
        compared row by row.
        Dimensions: drop cause x message kind (user / AsyncRequest / AsyncResponse / other internal / the three excluded kinds; also a real
        ctx.Request refused by a full mailbox); forced PID state bits of a registered remote-tell target; failed batches that come out of
        the REAL coalescer flush path (remoting.RemoteTell to a node that hangs up) — singly inside the model-tied sequences and, in
        TestVerifC18CoalescerPath, from concurrent senders with natural batching while the drain is not scheduled.
Oracle: independent of the model: multiset of (message id, sender, receiver) dropped == multiset of Deadletter
        events, each exactly once, counter == number of events after every step, per-receiver counters, and the
        same on a black-box run with real goroutines and concurrent traffic over all causes.
"""
import json
import os
import re
from collections import Counter

from vlib import read_jsonl, canon_hash, VERIF

SIG_QUEUE = "enqueueCoalescedFailure:fan-out-queue-full-batch-gets-no-deadletter"
SIG_V6RCV = "remote-deadletter:receiver-with-ipv6-host-unparseable-no-deadletter"
SIG_V6SND = "remote-deadletter:sender-with-ipv6-host-unparseable-replaced-by-nosender"
SIG_ASK2 = "Ask:enqueue-failure-deadlettered-at-enqueue-and-again-at-timeout"
SIG_ASKRCV = "PID.Ask:timeout-deadletter-names-asker-as-receiver"

BLK, GAT, ALV, MUT, SA, SB, REM, STP = 1, 2, 3, 4, 5, 6, 7, 8
GH = [9, 10, 11, 12]
CL = [13, 14]
REQ, STY, VD1, VD2 = 15, 16, 17, 18
CAP_ASSUMED = 256
# message kinds: the drop site's recursion guard excludes exactly the last three
KIND_COQ = {"user": "KUser", "asyncreq": "KAsyncRequest", "asyncresp": "KAsyncResponse", "panicking": "KInternal", "poisonpill": "KInternal",
            "pausepass": "KInternal", "resumepass": "KInternal", "panicsignal": "KInternal",
            "poststart": "KPostStart", "terminated": "KTerminated", "senddl": "KSendDL"}
EXCLUDED_KINDS = ("poststart", "terminated", "senddl")
MAILBOX_KINDS = ["user", "user", "user", "asyncreq", "asyncreq", "asyncresp"]   # kinds that are queued in the user mailbox
STATE_BITS = ["stopping", "suspended", "passivating", "notrunning", "paused", "skipnext"]


def state_running(st):
    return not any(b in st for b in ("stopping", "suspended", "passivating", "notrunning"))


def W(mid, frm=("good", 13), to=("good", 9), payload=True, meta=True):
    return {"Mid": mid, "From": {"Form": frm[0], "N": frm[1]}, "To": {"Form": to[0], "N": to[1]}, "Payload": payload, "Meta": meta}


def OP(**k):
    d = dict(K="", Via="", Snd=0, Rcv=0, Kind="user", Mid=0, Dl=True, Guard=True, Shut=False, Qon=True, Accepted=True, Api=False,
             W=W(0), Tree="", St=[], Batch=[])
    d.update(k)
    return d


def witness_ops():
    """the Coq witnesses (Proofs.v wit_*) and one op per drop cause / branch; always run first"""
    ops = [
        OP(K="local", Via="unhandled", Snd=SA, Mid=1),
        OP(K="local", Via="unhandled", Snd=0, Mid=2),
        OP(K="local", Via="full", Snd=SB, Mid=3),
        OP(K="local", Via="stopping", Snd=SA, Rcv=ALV, Shut=True, Mid=4),
        OP(K="local", Via="direct", Snd=-1, Rcv=ALV, Mid=5),
        OP(K="local", Via="direct", Snd=SA, Rcv=ALV, Kind="poststart", Mid=6),
        OP(K="local", Via="direct", Snd=SA, Rcv=ALV, Kind="terminated", Mid=7),
        OP(K="local", Via="direct", Snd=SA, Rcv=ALV, Kind="senddl", Mid=8),
        OP(K="local", Via="nostream", Snd=SA, Rcv=ALV, Mid=9),
        OP(K="local", Via="noaddr", Snd=SA, Rcv=ALV, Mid=10),
        OP(K="todl", Snd=SA, Rcv=SB, Mid=11),
        OP(K="ask", Snd=SA, Accepted=True, Mid=12),
        OP(K="ask", Api=True, Accepted=True, Mid=13),
        OP(K="ask", Snd=SA, Accepted=False, Mid=14),                      # wit_ask_twice
        OP(K="remote", W=W(15), Tree="missing"),
        OP(K="remote", W=W(16, to=("good", REM)), Tree="removed"),
        OP(K="remote", W=W(17, to=("good", STP)), Tree="notrunning"),
        OP(K="remote", W=W(18, to=("good", ALV)), Tree="dispfail"),
        OP(K="remote", W=W(19, to=("good", ALV)), Tree="ok"),
        OP(K="remote", W=W(20, to=("good", GAT)), Tree="okfull"),
        OP(K="remote", W=W(21, meta=False), Tree="missing"),
        OP(K="remote", W=W(22, to=("good", ALV), meta=False), Tree="ok"),
        OP(K="remote", W=W(23, payload=False), Tree="missing"),           # wit_other
        OP(K="remote", W=W(24, to=("v6", 9)), Tree="missing"),            # wit_v6_receiver
        OP(K="remote", W=W(25, frm=("v6", 13)), Tree="missing"),          # wit_v6_sender
        OP(K="remote", W=W(26, frm=("empty", 0)), Tree="missing"),
        OP(K="remote", W=W(27, frm=("garbage", 0)), Tree="missing"),
        OP(K="remote", W=W(28, to=("garbage", 0)), Tree="missing"),
        OP(K="remote", W=W(29), Tree="missing", Dl=False),
        OP(K="remote", W=W(30), Tree="missing", Guard=False),
        OP(K="remote", W=W(31, to=("good", GAT)), Tree="okfull", Guard=False),
        OP(K="local", Via="direct", Snd=SA, Rcv=ALV, Mid=32, Dl=False),
        OP(K="coalesce", Batch=[W(33), W(34, to=("v6", 10)), W(35, payload=False), W(36, frm=("v6", 14)), W(37, to=("good", 10))]),
        OP(K="coalesce", Batch=[W(38)], Shut=True),
        OP(K="coalesce", Batch=[W(39)], Qon=False),
        OP(K="count", Rcv=9),
        OP(K="drain"),
        OP(K="count", Rcv=9),
        OP(K="count", Rcv=10),
        OP(K="publishall"),
        OP(K="coalesce", Batch=[W(40), W(41)]),
        OP(K="drain", Guard=False),
    ]
    # wit_queue: capacity + 1 failed one-message batches while the drain goroutine is not scheduled
    ops += [OP(K="coalesce", Batch=[W(1000 + i, frm=("good", SA))]) for i in range(CAP_ASSUMED + 1)]
    ops += [OP(K="drain"), OP(K="count", Rcv=9), OP(K="count", Rcv=0)]
    return ops


def kinds_states_ops():
    """message kinds x drop causes, target PID states for remote tells, failed batches through the real coalescer"""
    ops = []
    mid = [0]

    def nm():
        mid[0] += 1
        return mid[0]
    for kind in ("user", "asyncreq", "asyncresp"):
        for snd in (SA, 0):
            ops.append(OP(K="local", Via="full", Snd=snd, Mid=nm(), Kind=kind))
        ops.append(OP(K="local", Via="full", Snd=SB, Mid=nm(), Kind=kind, Shut=True))
    ops.append(OP(K="local", Via="request", Snd=REQ, Mid=nm(), Kind="asyncreq"))
    ops.append(OP(K="local", Via="request", Snd=REQ, Mid=nm(), Kind="asyncreq"))
    for kind in KIND_COQ:
        ops.append(OP(K="local", Via="direct", Snd=SA, Rcv=ALV, Mid=nm(), Kind=kind))
        ops.append(OP(K="local", Via="direct", Snd=-1, Rcv=GAT, Mid=nm(), Kind=kind))
    for st in ([], ["stopping"], ["suspended"], ["passivating"], ["notrunning"], ["paused"], ["paused", "skipnext"], ["stopping", "passivating"],
               ["suspended", "paused"], ["notrunning", "stopping", "suspended", "passivating"], []):
        ops.append(OP(K="remote", W=W(nm(), frm=("good", CL[0]), to=("good", STY)), Tree="state", St=st))
    ops.append(OP(K="count", Rcv=STY))
    for i in range(7):
        ops.append(OP(K="coalesce_real", Batch=[W(nm(), frm=("good", [SA, SB, REQ][i % 3]), to=("good", [VD1, VD1, VD2][i % 3]))]))
    ops += [OP(K="drain"), OP(K="count", Rcv=VD1), OP(K="count", Rcv=GAT), OP(K="count", Rcv=0)]
    return ops


def gen_seq(rng, n_ops, heavy_queue=False):
    ops = []
    mid = [0]

    def nm():
        mid[0] += 1
        return mid[0]

    def env():
        e = {}
        if rng.random() < 0.04:
            e["Dl"] = False
        if rng.random() < 0.04:
            e["Guard"] = False
        return e

    def snd():
        return rng.choice([0, 0, SA, SB, SA, SB, MUT])

    def wform_from():
        x = rng.random()
        if x < 0.72:
            return ("good", rng.choice(CL + [SA, SB]))
        if x < 0.80:
            return ("v6", rng.choice(CL))
        if x < 0.92:
            return ("empty", 0)
        return ("garbage", 0)

    def wmsg(to_n, allow_v6=True):
        x = rng.random()
        to = ("good", to_n)
        if allow_v6 and x < 0.08:
            to = ("v6", to_n)
        elif allow_v6 and x < 0.11:
            to = ("garbage", 0)
        return W(nm(), frm=wform_from(), to=to, payload=rng.random() >= 0.06, meta=rng.random() >= 0.10)

    if heavy_queue:
        n0 = CAP_ASSUMED - rng.randint(0, 3)
        for _ in range(n0):
            ops.append(OP(K="coalesce", Batch=[W(nm(), frm=("good", rng.choice([SA, SB] + CL)), to=("good", rng.choice(GH)))]))
    weights = [("unhandled", 10), ("full", 9), ("request", 2.5), ("stopping", 5), ("direct", 8), ("nostream", 1), ("noaddr", 1), ("todl", 3),
               ("ask", 1.2), ("remote", 24), ("coalesce", 22 if heavy_queue else 10), ("coalesce_real", 0 if heavy_queue else 4),
               ("drain", 1 if heavy_queue else 5), ("publishall", 1), ("count", 4)]
    names = [w[0] for w in weights]
    ws = [w[1] for w in weights]
    for _ in range(n_ops):
        k = rng.choices(names, ws)[0]
        if k in ("unhandled", "full"):
            kind = rng.choice(MAILBOX_KINDS) if k == "full" else "user"
            ops.append(OP(K="local", Via=k, Snd=snd(), Mid=nm(), Kind=kind, Shut=rng.random() < 0.05, **env()))
        elif k == "request":
            ops.append(OP(K="local", Via="request", Snd=REQ, Mid=nm(), Kind="asyncreq", **env()))
        elif k == "coalesce_real":
            ops.append(OP(K="coalesce_real", Batch=[W(nm(), frm=("good", rng.choice([SA, SB, REQ])), to=("good", rng.choice([VD1, VD1, VD2])))]))
        elif k == "stopping":
            ops.append(OP(K="local", Via=k, Snd=snd(), Rcv=rng.choice([ALV, MUT, BLK, SA, GAT]), Mid=nm(), Shut=True, **env()))
        elif k in ("direct", "nostream", "noaddr"):
            kind = rng.choice(["user", "user"] + list(KIND_COQ))
            ops.append(OP(K="local", Via=k, Snd=rng.choice([-1, 0, SA, SB, REQ]), Rcv=rng.choice([ALV, MUT, BLK, SA, SB, GAT, STY]), Kind=kind, Mid=nm(), **env()))
        elif k == "todl":
            ops.append(OP(K="todl", Snd=rng.choice([0, SA, SB, CL[0]]), Rcv=rng.choice([ALV, BLK, GH[0], CL[1], 0]), Mid=nm(), **env()))
        elif k == "ask":
            api = rng.random() < 0.3
            ops.append(OP(K="ask", Snd=0 if api else rng.choice([SA, SB]), Api=api, Accepted=rng.random() < 0.5, Mid=nm(), **env()))
        elif k == "remote":
            tree = rng.choice(["missing", "missing", "removed", "notrunning", "dispfail", "ok", "ok", "okfull", "state", "state", "state"])
            to_n = {"missing": rng.choice(GH), "removed": REM, "notrunning": STP, "dispfail": ALV, "ok": ALV, "okfull": GAT, "state": STY}[tree]
            w = wmsg(to_n, allow_v6=tree in ("missing", "removed", "notrunning"))
            if w["To"]["Form"] == "garbage":
                tree = "missing"
            st = [b for b in STATE_BITS if rng.random() < 0.22] if tree == "state" else []
            ops.append(OP(K="remote", W=w, Tree=tree, St=st, Shut=rng.random() < 0.04, **env()))
        elif k == "coalesce":
            b = [wmsg(rng.choice(GH + [ALV, REM])) for _ in range(rng.randint(1, 5))]
            ops.append(OP(K="coalesce", Batch=b, Shut=rng.random() < 0.05, Qon=rng.random() >= 0.03))
        elif k == "drain":
            ops.append(OP(K="drain", **env()))
        elif k == "publishall":
            ops.append(OP(K="publishall"))
        else:
            ops.append(OP(K="count", Rcv=rng.choice([0] + GH + [ALV, GAT, BLK, REM, STP, MUT, STY, VD1, VD2])))
    ops += [OP(K="drain"), OP(K="count", Rcv=rng.choice(GH)), OP(K="count", Rcv=0)]
    return ops


# ------------------------------------------------------------------------------------------ model terms

def c_bool(b):
    return "true" if b else "false"


def c_env(o):
    return "(E %s %s %s %s)" % (c_bool(o["Dl"]), c_bool(o["Guard"]), c_bool(o["Shut"]), c_bool(o["Qon"]))


def idx_of(w, v6parse):
    f, n = w["Form"], w["N"]
    if f == "good":
        return n
    if f == "v6":
        return n + 100
    return 0


def c_waddr(w, v6parse):
    f = w["Form"]
    if f == "empty":
        return "WEmpty"
    if f == "good":
        return "(WGood %d)" % w["N"]
    if f == "v6":
        return "(%s %d)" % ("WGood" if v6parse else "WBad", w["N"] + 100)
    return "(WBad 0)"


def c_wmsg(w, v6parse):
    return "(W %d %s %s %s %s)" % (w["Mid"], c_waddr(w["From"], v6parse), c_waddr(w["To"], v6parse), c_bool(w["Payload"]), c_bool(w["Meta"]))


def c_snd(n):
    return "SNone" if n < 0 else ("SNoSender" if n == 0 else "(SPid %d)" % n)


def c_hop(o, v6parse, row=None):
    k = o["K"]
    e = c_env(o)
    if k == "local":
        kind = KIND_COQ[o["Kind"]]
        via = o["Via"]
        rcv = {"unhandled": BLK, "full": GAT, "request": GAT}.get(via, o["Rcv"])
        stream = via != "nostream"
        rc = "None" if via == "noaddr" else "(Some %d)" % rcv
        return "HOp (OLocal %s %s %s %s %s %d)" % (e, c_bool(stream), c_snd(o["Snd"]), rc, kind, o["Mid"])
    if k == "todl":
        return "HOp (OToDL %s %d %d %d)" % (e, o["Snd"], o["Rcv"], o["Mid"])
    if k == "ask":
        args = "%s %s %s %d %d" % (e, c_bool(o["Accepted"]), "SNoSender" if o["Api"] else c_snd(o["Snd"]), MUT if o["Accepted"] else GAT, o["Mid"])
        # whether Ask went on to wait for its timer after a refused enqueue is its control flow, observed on the implementation
        if row is not None and row.get("AskErr") != "timeout":
            return "HOp (OAskSend %s)" % args
        return "HAsk " + args
    if k == "remote":
        st = o.get("St") or []
        t = {"missing": "TMissing", "removed": "TRemoved", "notrunning": "TNotRunning", "dispfail": "TDispFail",
             "ok": "(TOk %s)" % c_bool(not o["Shut"]), "okfull": "(TOk false)",
             "state": "(tree_of_state (PS %s %s %s %s) %s)" % (c_bool("notrunning" not in st), c_bool("stopping" in st), c_bool("suspended" in st),
                                                               c_bool("passivating" in st), c_bool(not o["Shut"]))}[o["Tree"]]
        return "HOp (ORemote %s %s %s)" % (e, c_wmsg(o["W"], v6parse), t)
    if k in ("coalesce", "coalesce_real"):
        return "HOp (OCoalesce %s [%s])" % (e, "; ".join(c_wmsg(w, v6parse) for w in o["Batch"]))
    if k == "drain":
        return "HDrain %s" % e
    if k == "publishall":
        return "HOp OPublishAll"
    if k == "count":
        return "HCount %d" % o["Rcv"]
    raise ValueError(k)


# ------------------------------------------------------------------------------------------ property oracle

class Exp:
    __slots__ = ("mid", "frm", "to", "status", "why", "step", "matched", "askpid")

    def __init__(self, mid, frm, to, status, why, step, askpid=-1):
        self.mid, self.frm, self.to, self.status, self.why, self.step, self.matched, self.askpid = mid, frm, to, status, why, step, 0, askpid


def oracle_sequence(ctx, sid, ops, rows, end, table, stats, report):
    """ops: the JSON ops; rows: per-step records of the implementation. Independent of the Coq model."""
    v6parse = table["V6Parse"]
    cap = table["QueueCap"]
    exps = []
    dup_ok = Counter()
    queue = []  # batches the implementation accepted (decided from ITS queue length), not yet drained
    fresh_pub = []
    n_fresh = 0
    last_by_rcv = {}
    per_addr_pub = Counter()
    exp_target = 0
    for i, (o, r) in enumerate(zip(ops, rows)):
        k = o["K"]
        pubs = [(p["Mid"], p["From"], p["To"]) for p in (r.get("Pub") or [])]
        pub_raw = r.get("Pub") or []
        qlen_before = rows[i - 1]["Qlen"] if i > 0 else 0
        if r.get("Err") and r["Err"].startswith("env:"):
            ctx.notes.append("sequence %d step %d inconclusive: %s" % (sid, i, r["Err"]))
        elif r.get("Err"):
            report("deadletter:harness-op-error", "sequence %d step %d (%s): %s" % (sid, i, k, r["Err"]), {"seq": sid, "step": i, "op": o})
        # ---- what the property demands for this op
        if k == "local":
            if o["Kind"] not in EXCLUDED_KINDS:
                via = o["Via"]
                rcv = {"unhandled": BLK, "full": GAT, "request": GAT}.get(via, o["Rcv"])
                frm = max(o["Snd"], 0)
                st, why = "must", via + ("" if o["Kind"] == "user" else " of a %s message" % o["Kind"])
                if via in ("nostream", "noaddr"):
                    st, why, rcv = "guard", via, (0 if via == "noaddr" else rcv)
                elif not o["Dl"]:
                    st, why = "guard", "dead-letter actor not running"
                exps.append(Exp(o["Mid"], frm, rcv, st, why, i))
        elif k == "todl":
            exps.append(Exp(o["Mid"], o["Snd"], o["Rcv"], "must" if o["Dl"] else "guard", "toDeadletter" if o["Dl"] else "dead-letter actor not running", i))
        elif k == "ask":
            tgt = MUT if o["Accepted"] else GAT
            frm = 0 if o["Api"] else o["Snd"]
            exps.append(Exp(o["Mid"], frm, tgt, "must" if o["Dl"] else "guard", "ask timeout" if o["Dl"] else "dead-letter actor not running", i,
                            askpid=(-1 if o["Api"] else o["Snd"])))
            if not o["Accepted"] and o["Dl"]:
                dup_ok[o["Mid"]] += 1
            if o["Accepted"] and r.get("AskErr") != "timeout":
                report("deadletter:harness-op-error", "sequence %d step %d: Ask to the mute actor returned %r instead of timing out" % (sid, i, r.get("AskErr")), {"seq": sid, "step": i})
        elif k == "remote":
            w = o["W"]
            st_bits = o.get("St") or []
            target_up = o["Tree"] == "ok" or (o["Tree"] == "state" and state_running(st_bits))
            delivered = w["Payload"] and w["Meta"] and target_up and not o["Shut"]
            if delivered and o["Tree"] == "state":
                exp_target += 1
            if not delivered:
                what = "remote/" + ("badmeta" if not w["Meta"] else (o["Tree"] if o["Tree"] != "state" else "target registered, state bits %s" % (st_bits or ["running"])))
                exps.append(remote_exp(w, i, v6parse, via_parse=(not w["Meta"]) or not (target_up or o["Tree"] == "okfull"),
                                       dl=o["Dl"], guard=o["Guard"], what=what))
        elif k in ("coalesce", "coalesce_real"):
            accepted = r["Qlen"] == qlen_before + 1
            if o["Shut"] or not o["Qon"]:
                for w in o["Batch"]:
                    exps.append(Exp(w["Mid"], idx_of(w["From"], v6parse), idx_of(w["To"], v6parse), "guard", "system shutting down / no fan-out queue", i))
                if accepted:
                    report("deadletter:model-mismatch", "enqueueCoalescedFailure accepted a batch while shutting down / without queue", {"seq": sid, "step": i})
            elif accepted:
                queue.append((i, o["Batch"]))
            else:
                full = qlen_before >= cap
                for w in o["Batch"]:
                    if full:
                        exps.append(Exp(w["Mid"], idx_of(w["From"], v6parse), idx_of(w["To"], v6parse), "finding", SIG_QUEUE, i))
                    else:
                        exps.append(Exp(w["Mid"], idx_of(w["From"], v6parse), idx_of(w["To"], v6parse), "must",
                                        "coalesced batch refused with %d/%d queued" % (qlen_before, cap), i))
        elif k == "drain":
            for (j, batch) in queue:
                for w in batch:
                    exps.append(remote_exp(w, j, v6parse, via_parse=True, dl=o["Dl"], guard=o["Guard"], what="coalesced", drain=True))
            queue = []
            if r["Qlen"] != 0:
                report("deadletter:model-mismatch", "fan-out queue not empty after the drain ran to completion", {"seq": sid, "step": i})
        # ---- nothing may be pushed into the mailbox of a registered target that is not running
        if r.get("Target", 0) != exp_target:
            if r.get("Target", 0) > exp_target:
                report("remote-tell:handed-to-a-target-that-is-not-running",
                       "sequence %d step %d: remote tell %d to %s arrived while its PID state was %s (IsRunning false): the message was pushed into the actor's mailbox and handled" %
                       (sid, i, o.get("W", {}).get("Mid", -1), table["Names"][STY], o.get("St")), {"seq": sid, "step": i, "op": o})
            else:
                report("deadletter:model-mismatch", "sequence %d step %d: a remote tell to the running target %s was not handled by it" % (sid, i, table["Names"][STY]),
                       {"seq": sid, "step": i, "op": o})
            exp_target = r.get("Target", 0)
        # ---- counter and per-receiver counters after every step
        if k == "publishall":
            want = Counter(last_by_rcv.values())
            got = Counter(pubs)
            if want != got:
                report("deadletter:republish", "PublishDeadletters re-published %s, the last letters per receiver are %s" % (sorted(got.elements()), sorted(want.elements())),
                       {"seq": sid, "step": i})
        else:
            for p, praw in zip(pubs, pub_raw):
                fresh_pub.append((i, p, praw))
                last_by_rcv[praw["ToS"]] = p
                per_addr_pub[praw["ToS"]] += 1
            n_fresh += len(pubs)
        if r["Count"] != n_fresh or r["Raw"] != n_fresh:
            report("deadletter:counter-differs-from-number-published",
                   "sequence %d step %d (%s): dead-letter count reported %d (field %d) but %d dead letters were published so far" % (sid, i, k, r["Count"], r["Raw"], n_fresh),
                   {"seq": sid, "step": i, "op": o, "count": r["Count"], "raw": r["Raw"], "published": n_fresh})
            n_fresh = r["Count"]  # resynchronise so one defect is reported once
        if k == "count":
            key = table["Good"][o["Rcv"]]
            if r["PerAddr"] != per_addr_pub[key]:
                report("deadletter:per-receiver-count", "sequence %d step %d: count for %s reported %d, %d letters were published for it" %
                       (sid, i, table["Names"][o["Rcv"]], r["PerAddr"], per_addr_pub[key]), {"seq": sid, "step": i})
    # ---- exactly once: match published letters against the demanded ones
    by_mid = {}
    for e in exps:
        by_mid.setdefault(e.mid, []).append(e)
    ask_fix = {}
    for (i, p, praw) in fresh_pub:
        mid, frm, to = p
        cands = by_mid.get(mid, [])
        exact = [e for e in cands if (e.frm, e.to) == (frm, to) and not e.matched]
        if exact:
            exact[0].matched = 1
            continue
        loose = [e for e in cands if not e.matched]
        done = False
        for e in loose:
            if e.to == to and e.frm >= 100 and frm == 0 and not v6parse:
                e.matched = 1
                report(SIG_V6SND, "remote message %d from %s to %s: dead letter names NoSender because address.Parse rejects the sender's canonical string %r" %
                       (mid, table["Names"][e.frm - 100], name_of(table, e.to), table["V6"][e.frm - 100]),
                       {"seq": sid, "step": e.step, "op": ops[e.step], "published": praw})
                done = True
                break
            if e.askpid > 0 and frm == e.frm and to == e.askpid:
                e.matched = 1
                ask_fix[(sid, i, mid)] = e.to
                report(SIG_ASKRCV, "PID.Ask from %s to %s timed out: dead letter for message %d names receiver %s (the asker), not the asked actor" %
                       (table["Names"][e.frm], table["Names"][e.to], mid, table["Names"][to]), {"seq": sid, "step": e.step, "op": ops[e.step], "published": praw})
                done = True
                break
        if done:
            continue
        if dup_ok[mid] > 0 and cands:
            dup_ok[mid] -= 1
            e = cands[0]
            if to == e.askpid and frm == e.frm and e.askpid != e.to:
                ask_fix[(sid, i, mid)] = e.to
            report(SIG_ASK2, "Ask of message %d to an actor whose bounded mailbox is full: dead-lettered by doReceive and again when the Ask timed out (2 events, counter +2)" % mid,
                   {"seq": sid, "step": e.step, "op": ops[e.step], "published": praw})
            continue
        if cands:
            kind = "duplicate" if all(e.matched for e in cands) and any((e.frm, e.to) == (frm, to) for e in cands) else "wrong-fields"
            e = cands[0]
            report("deadletter:" + kind, "sequence %d: message %d dropped at step %d (%s) expected as (sender %s, receiver %s) was published%s as (sender %s=%r, receiver %s=%r)" %
                   (sid, mid, e.step, e.why, name_of(table, e.frm), name_of(table, e.to), " again" if kind == "duplicate" else "",
                    name_of(table, frm), praw["FromS"], name_of(table, to), praw["ToS"]), {"seq": sid, "step": e.step, "op": ops[e.step], "published": praw})
        else:
            report("deadletter:unexpected", "sequence %d step %d: dead letter for message %d (sender %r receiver %r reason %r) although no message was dropped" %
                   (sid, i, mid, praw["FromS"], praw["ToS"], praw["Reason"]), {"seq": sid, "step": i, "op": ops[i], "published": praw})
    for e in exps:
        stats["demanded"] += 1
        if e.matched:
            stats["published_once"] += 1
            continue
        if e.status == "must":
            report("deadletter:missing", "sequence %d: message %d dropped at step %d (%s, sender %s, receiver %s) was never published as a dead letter" %
                   (sid, e.mid, e.step, e.why, name_of(table, e.frm), name_of(table, e.to)), {"seq": sid, "step": e.step, "op": ops[e.step], "ops_prefix": ops[:e.step + 1] if e.step < 60 else None})
        elif e.status == "finding":
            stats["lost_finding"][e.why] += 1
            if e.why == SIG_QUEUE:
                report(SIG_QUEUE, "failed coalesced batch reported while %d batches were queued (capacity %d): message %d to %s got no dead letter" %
                       (cap, cap, e.mid, name_of(table, e.to)), {"seq": sid, "step": e.step, "queue_capacity": cap})
            else:
                report(SIG_V6RCV, "message %d to %s: receiver string %r is the canonical Address.String() of a valid address but address.Parse rejects it, so no dead letter is published (%s)" %
                       (e.mid, name_of(table, e.to), table["V6"][e.to - 100], e.why.split("|")[-1]), {"seq": sid, "step": e.step, "op": ops[e.step]})
        else:
            stats["excluded_by_code"][e.why] += 1
    # ---- subscriber view (event stream): nothing may be seen that the dead-letter actor did not publish
    sub = Counter((p["Mid"], p["From"], p["To"]) for p in (end.get("Sub") or []))
    allp = Counter()
    for r in rows:
        allp.update((p["Mid"], p["From"], p["To"]) for p in (r.get("Pub") or []))
    extra = sub - allp
    if extra:
        report("deadletter:published-outside-dead-letter-actor", "subscriber received Deadletter events the dead-letter actor did not publish: %s" % sorted(extra.elements())[:5], {"seq": sid})
    if allp - sub:
        stats["subscriber_missed"] += sum((allp - sub).values())
    return ask_fix


def remote_exp(w, step, v6parse, via_parse, dl, guard, what, drain=False):
    frm, to = idx_of(w["From"], v6parse), idx_of(w["To"], v6parse)
    st, why = "must", what
    if drain:
        if w["To"]["Form"] == "garbage" or w["To"]["Form"] == "empty":
            st, why = "guard", "receiver string is not an address"
        elif w["To"]["Form"] == "v6" and not v6parse:
            st, why = "finding", SIG_V6RCV + "|" + what
        elif not w["Payload"]:
            st, why = "guard", "payload cannot be decoded"
        elif not (dl and guard):
            st, why = "guard", "dead-letter actor / system guardian not running"
    else:
        if not w["Payload"]:
            st, why = "guard", "payload cannot be decoded"
        elif via_parse and w["To"]["Form"] in ("garbage", "empty"):
            st, why = "guard", "receiver string is not an address"
        elif via_parse and w["To"]["Form"] == "v6" and not v6parse:
            st, why = "finding", SIG_V6RCV + "|" + what
        elif not dl or (via_parse and not guard):
            st, why = "guard", "dead-letter actor / system guardian not running"
    return Exp(w["Mid"], frm, to, st, why, step)


def name_of(table, i):
    if i is None or i < 0:
        return "?"
    if i >= 100:
        return table["Names"][i - 100] + "@[ipv6]"
    return table["Names"][i]


# ------------------------------------------------------------------------------------------ run

def run(ctx):
    ctx.trusted += [
        "hand-written Gallina model C18/Model.v of the drop sites, the bounded fan-out channel and the dead-letter actor "
        "(compared with the real functions after every op of every generated sequence, each run)",
        "Go channel semantics (non-blocking send on a buffered channel, FIFO) and the FIFO of the dead-letter actor's system mailbox (C02/C03)",
        "in-package harness go/inpkg/actor/zz_verif_C18_test.go (wraps the dead-letter actor's eventsStream field to record its Publish calls; "
        "toggles running/shutting-down flags and inserts fake tree entries to reach every branch)",
    ]
    ctx.assumptions += [
        "each drop site's enqueue of SendDeadletter into the dead-letter actor's system mailbox is one atomic step; droppers interact only through that mailbox and the fan-out channel",
        "the dead-letter count is read through the dead-letter actor (DeadlettersCountRequest), never concurrently with handleDeadletter",
        "no production path sends commands.PublishDeadletters (its re-publications are modelled and accounted as replays)",
    ]
    rng = ctx.rng
    seqs = []
    cdir = os.path.join(VERIF, "corpus", "C18")
    for fn, fallback in (("witness.json", witness_ops), ("kinds_states.json", kinds_states_ops)):
        if os.path.exists(os.path.join(cdir, fn)):
            ops0 = json.load(open(os.path.join(cdir, fn)))["ops"]
            for o in ops0:
                o.setdefault("St", [])
            seqs.append(ops0)
        else:
            seqs.append(fallback())
    n_seq = 600 if ctx.thorough else 80
    for i in range(n_seq):
        seqs.append(gen_seq(rng, rng.randint(25, 70)))
    for i in range(12 if ctx.thorough else 3):
        seqs.append(gen_seq(rng, rng.randint(30, 60), heavy_queue=True))
    with open(os.path.join(ctx.work, "c18_in.jsonl"), "w") as f:
        for i, ops in enumerate(seqs):
            f.write(json.dumps({"Id": i, "Ops": ops}) + "\n")
    for fn in ("c18_out.jsonl", "c18_conc_out.jsonl", "c18_bound_out.jsonl", "c18_coal_out.jsonl"):
        p = os.path.join(ctx.work, fn)
        if os.path.exists(p):
            os.remove(p)
    env = {"VERIF_C18_ROUNDS": "12" if ctx.thorough else "3", "VERIF_C18_PER": "300" if ctx.thorough else "120",
           "VERIF_C18_BURST": "100000" if ctx.thorough else "20000", "VERIF_C18_COAL_ROUNDS": "40" if ctx.thorough else "8"}
    ctx.log("running the in-package harness on %d sequences (%d ops)" % (len(seqs), sum(len(s) for s in seqs)))
    rc, out = ctx.go_test("actor", "^TestVerifC18", ["zz_verif_C18_test.go"], env=env, timeout=900)
    ctx.log("harness done rc=%d" % rc)
    recs = read_jsonl(os.path.join(ctx.work, "c18_out.jsonl"))
    table = next((r for r in recs if r.get("Table")), None)
    steps = {}
    ends = {}
    for r in recs:
        if r.get("Table"):
            continue
        if r.get("End"):
            ends[r["Seq"]] = r
        else:
            steps.setdefault(r["Seq"], []).append(r)
    complete = table is not None and all(len(steps.get(i, [])) == len(seqs[i]) and i in ends for i in range(len(seqs)))
    if rc != 0 or not complete:
        ctx.tie_broken("go-harness actor dead-letter drop sites (TestVerifC18*)", out)

    reported = Counter()
    first = {}

    def report(sig, what, replay):
        reported[sig] += 1
        if sig not in first:
            first[sig] = (what, replay)

    stats = {"demanded": 0, "published_once": 0, "lost_finding": Counter(), "excluded_by_code": Counter(), "subscriber_missed": 0}
    ask_fix = {}
    op_hist = Counter()
    kind_hist = Counter()
    state_hist = Counter()
    hashes = set()
    if table is not None:
        for sid, ops in enumerate(seqs):
            rows = steps.get(sid, [])
            if len(rows) != len(ops) or sid not in ends:
                continue
            ask_fix.update(oracle_sequence(ctx, sid, ops, rows, ends[sid], table, stats, report))
            for o in ops:
                op_hist[o["K"] + ("/" + (o["Via"] or o["Tree"]) if (o["Via"] or o["Tree"]) else "")] += 1
                if o["K"] == "local":
                    kind_hist[o["Via"] + ":" + o["Kind"]] += 1
                if o["K"] == "remote" and o["Tree"] == "state":
                    state_hist["+".join(o.get("St") or ["running"])] += 1
            if any(r.get("Pub") for r in rows):
                hashes.add(canon_hash(ops))

    # ---- black box: real goroutines
    conc = [r for r in read_jsonl(os.path.join(ctx.work, "c18_conc_out.jsonl")) if r.get("Conc")]
    conc_msgs = 0
    for r in conc:
        exp = Counter((p["Mid"], p["From"], p["To"]) for p in (r.get("Expected") or []))
        pub = Counter((p["Mid"], p["From"], p["To"]) for p in (r.get("Pub") or []))
        conc_msgs += sum(exp.values())
        rp = {"test": "TestVerifC18Concurrent", "round": r["Round"], "seed": ctx.seed}
        if exp - pub:
            ms = sorted((exp - pub).elements())
            report("deadletter:missing", "concurrent run round %d: %d of %d dropped messages were never published as dead letters, e.g. (id, sender, receiver) = %s" %
                   (r["Round"], len(ms), sum(exp.values()), [(m, name_of(table, a), name_of(table, b)) for (m, a, b) in ms[:3]]), rp)
        if pub - exp:
            ms = sorted((pub - exp).elements())
            dup = [m for m in ms if exp[m] > 0]
            report("deadletter:duplicate" if dup else "deadletter:unexpected",
                   "concurrent run round %d: dead letters published that match no dropped message (or a second time), e.g. %s" %
                   (r["Round"], [(m, name_of(table, a), name_of(table, b)) for (m, a, b) in ms[:3]]), rp)
        if r["Count"] != sum(pub.values()):
            report("deadletter:counter-differs-from-number-published", "concurrent run round %d: dead-letter count %d, %d events published" % (r["Round"], r["Count"], sum(pub.values())), rp)
        if r.get("Metric", -1) >= 0 and r["Metric"] != r["Count"]:
            report("deadletter:counter-differs-from-number-published", "concurrent run round %d: ActorSystem.Metric().DeadlettersCount()=%d, dead-letter actor reports %d" % (r["Round"], r["Metric"], r["Count"]), rp)
        sub = Counter((p["Mid"], p["From"], p["To"]) for p in (r.get("Sub") or []))
        if sub - pub:
            report("deadletter:published-outside-dead-letter-actor", "concurrent run: subscriber saw Deadletter events the dead-letter actor did not publish: %s" % sorted((sub - pub).elements())[:3], rp)
        if pub - sub:
            stats["subscriber_missed"] += sum((pub - sub).values())
    if rc == 0 and not conc:
        ctx.tie_broken("go-harness TestVerifC18Concurrent produced no output", out)
    # ---- failed batches produced by the real coalescer flush path while the drain lags: ids, each exactly once
    coal = [r for r in read_jsonl(os.path.join(ctx.work, "c18_coal_out.jsonl")) if r.get("Coal")]
    coal_stats = {"rounds": len(coal), "messages": 0, "batches": 0, "largest_batch": 0, "inconclusive": 0}
    for r in coal:
        sent = Counter((p["Mid"], p["From"], p["To"]) for p in (r.get("Sent") or []))
        pub = Counter((p["Mid"], p["From"], p["To"]) for p in (r.get("Pub") or []))
        coal_stats["messages"] += sum(sent.values())
        coal_stats["batches"] += r["Batches"]
        coal_stats["largest_batch"] = max(coal_stats["largest_batch"], r["MaxBatch"])
        rp = {"test": "TestVerifC18CoalescerPath", "round": r["Round"], "seed": ctx.seed, "failed_batches_queued_before_the_drain": r["Batches"],
              "sent (id, sender, receiver)": sorted(sent.elements())[:60]}
        if r.get("Err"):
            coal_stats["inconclusive"] += 1
            ctx.notes.append("coalescer path round %d inconclusive: %s" % (r["Round"], r["Err"]))
            if r["Err"].startswith("env:") and not (pub - sent):
                continue
        twice = sorted(m for m in pub if pub[m] > sent[m] and sent[m] > 0)
        alien = sorted(m for m in pub if sent[m] == 0)
        never = sorted((sent - pub).elements())
        if twice or alien:
            report("deadletter:duplicate" if twice else "deadletter:wrong-fields",
                   "%d messages sent with remoting.RemoteTell to unreachable nodes by concurrent senders, reported as %d failed batches before the drain ran: "
                   "dead-lettered twice: %s; never dead-lettered: %s%s (dead-letter count %d = number sent %d)" %
                   (sum(sent.values()), r["Batches"], [(m, name_of(table, a), name_of(table, b)) for (m, a, b) in twice[:4]],
                    [(m, name_of(table, a), name_of(table, b)) for (m, a, b) in never[:4]],
                    ("; published with fields nobody sent: %s" % alien[:3]) if alien else "", r["Count"], sum(sent.values())), rp)
        elif never:
            report("deadletter:missing", "%d messages sent with remoting.RemoteTell to unreachable nodes (%d failed batches): never dead-lettered: %s" %
                   (sum(sent.values()), r["Batches"], [(m, name_of(table, a), name_of(table, b)) for (m, a, b) in never[:4]]), rp)
        if r["Count"] != sum(pub.values()):
            report("deadletter:counter-differs-from-number-published", "coalescer path round %d: dead-letter count %d, %d events published" % (r["Round"], r["Count"], sum(pub.values())), rp)
    if rc == 0 and not coal:
        ctx.tie_broken("go-harness TestVerifC18CoalescerPath produced no output", out)
    bound = [r for r in read_jsonl(os.path.join(ctx.work, "c18_bound_out.jsonl")) if r.get("Bound")]
    for r in bound:
        if r["Dup"] > 0 or r["Count"] != r["Published"]:
            report("deadletter:duplicate" if r["Dup"] > 0 else "deadletter:counter-differs-from-number-published", "burst of %d failed coalesced batches: %d duplicates, count %d vs %d published" % (r["Sent"], r["Dup"], r["Count"], r["Published"]), r)
        if r["Published"] < r["Sent"] and r["FirstMissing"] <= r["QueueCap"]:
            report("deadletter:missing", "real drain goroutine: burst of %d failed one-message coalesced batches: message %d has no dead letter although at most %d batches were queued before it (capacity %d)" %
                   (r["Sent"], r["FirstMissing"], r["FirstMissing"] - 1, r["QueueCap"]), r)
        elif r["Published"] < r["Sent"]:
            report(SIG_QUEUE, "real drain goroutine: burst of %d failed one-message coalesced batches, only %d dead letters (first missing id %d); queue capacity %d" %
                   (r["Sent"], r["Published"], r["FirstMissing"], r["QueueCap"]), r)

    # ---- the Coq model on the same sequences
    mism = None
    n_rows = 0
    if table is not None and complete:
        v6 = table["V6Parse"]
        cap = table["QueueCap"]
        case_terms = []
        for sid, ops in enumerate(seqs):
            rows = steps[sid]
            exp_rows = []
            for i, (o, r) in enumerate(zip(ops, rows)):
                letters = []
                for p in (r.get("Pub") or []):
                    to = ask_fix.get((sid, i, p["Mid"]), p["To"]) if o["K"] == "ask" else p["To"]
                    letters.append("(%d,%d,%d)" % (max(p["Mid"], 0), max(p["From"], 0) if p["From"] >= 0 else 9999, to if to >= 0 else 9999))
                # comparison mode: 0 letters in exact order, 1 letters as a multiset (map iteration order), 2 letters not compared, 3 per-receiver count not compared
                # (re-publication after a PID.Ask dead letter with the wrong receiver key: reported by the oracle as SIG_ASKRCV)
                mode = 0
                if o["K"] == "publishall":
                    mode = 2 if any(k[0] == sid and k[1] < i for k in ask_fix) else 1
                if o["K"] == "count" and o["Rcv"] in (MUT, GAT, SA, SB) and any(k[0] == sid and k[1] < i for k in ask_fix):
                    mode = 3  # the per-receiver counter was bumped under the asker's key (SIG_ASKRCV, reported by the oracle)
                exp_rows.append("(%d,(%d,%d,%d,[%s]))" % (mode, r["Count"], r["Qlen"], r["PerAddr"] if o["K"] == "count" else 0, ";".join(letters)))
                n_rows += 1
            case_terms.append("(%d, [%s], [%s])" % (sid, "; ".join(c_hop(o, v6, r) for o, r in zip(ops, rows)), "; ".join(exp_rows)))
        prelude = """From Coq Require Import List Bool Arith PeanoNat. Import ListNotations.
From GV Require Import C18.Model.
Definition leqb (a b : letter) : bool := match a, b with (m1,f1,t1), (m2,f2,t2) => Nat.eqb m1 m2 && Nat.eqb f1 f2 && Nat.eqb t1 t2 end.
Fixpoint lseq (a b : list letter) : bool := match a, b with [] , [] => true | x :: r, y :: s => leqb x y && lseq r s | _, _ => false end.
Definition cntl (x : letter) (l : list letter) : nat := length (filter (leqb x) l).
Definition lmeq (a b : list letter) : bool := Nat.eqb (length a) (length b) && forallb (fun x => Nat.eqb (cntl x a) (cntl x b)) a.
Definition row := (nat * nat * nat * list letter)%type.
Definition row_eq (mode : nat) (a b : row) : bool :=
  match a, b with (c1,q1,p1,l1), (c2,q2,p2,l2) =>
    Nat.eqb c1 c2 && Nat.eqb q1 q2 && (match mode with 3 => true | _ => Nat.eqb p1 p2 end)
    && (match mode with 0 => lseq l1 l2 | 1 => lmeq l1 l2 | _ => true end) end.
Fixpoint first_diff (i : nat) (m : list row) (e : list (nat * row)) : option (nat * row) :=
  match m, e with
  | [], [] => None
  | x :: r, (p, y) :: s => if row_eq p x y then first_diff (S i) r s else Some (i, x)
  | x :: _, [] => Some (i, x)
  | [], _ :: _ => Some (i, (0,0,0,[]))
  end.
"""
        ctx.log("evaluating the Coq model on %d steps" % n_rows)
        chunk = 60
        chunks = [case_terms[k:k + chunk] for k in range(0, len(case_terms), chunk)]

        def eval_chunk(arg):
            k, terms = arg
            body = prelude + """Definition cases : list (nat * list hop * list (nat * row)) := [
%s
].
Definition res := map (fun c => match c with (id, hs, e) => (id, first_diff 0 (htrace %d hs init) e) end) cases.
Definition bad := filter (fun r => match snd r with Some _ => true | None => false end) res.
Definition summary := (length res, length bad, firstn 3 bad).
Eval vm_compute in summary.
""" % (";\n".join(terms), cap)
            return ctx.coq_eval("cases_C18_%d" % k, body)

        from concurrent.futures import ThreadPoolExecutor
        with ThreadPoolExecutor(max_workers=4) as ex:
            results = list(ex.map(eval_chunk, list(enumerate(chunks))))
        ctx.log("model evaluated")
        mism = 0
        n_eval = 0
        bad_txt = []
        for (rc2, o2) in results:
            flat = " ".join(o2.split())
            m_ = re.search(r"= \((\d+)(?:%nat)?, (\d+)(?:%nat)?, (\[.*\])\)", flat)
            if rc2 != 0 or not m_:
                ctx.tie_broken("C18/Model.v evaluation (cases.v did not evaluate)", o2)
                mism = None
                break
            n_eval += int(m_.group(1))
            mism += int(m_.group(2))
            if int(m_.group(2)):
                bad_txt.append(m_.group(3))
        if mism is not None and n_eval != len(seqs):
            ctx.tie_broken("C18/Model.v evaluation (not every sequence was evaluated)", {"evaluated": n_eval, "sequences": len(seqs)})
        if mism:
            txt = " ".join(bad_txt)
            detail = {"sequences_with_mismatch": mism, "first (seq, Some (step, model row = (counter, queue length, per-receiver count, letters published)))": txt[:3000]}
            for n_, mm in enumerate(list(re.finditer(r"\((\d+), Some \((\d+),", txt))[:3]):
                sid, st = int(mm.group(1)), int(mm.group(2))
                detail["op_%d" % n_] = seqs[sid][st]
                detail["implementation_row_%d" % n_] = steps[sid][st]
                detail["ops_prefix_%d" % n_] = seqs[sid][:st + 1] if st < 80 else "(long; see c18_in.jsonl sequence %d)" % sid
            # a concrete failing input reported by the oracle explains the divergence; otherwise the tie itself is reported
            generic = [s_ for s_ in reported if s_.startswith("deadletter:")]
            if generic:
                ctx.notes.append("model/implementation divergence at %s; concrete failing input reported by the oracle" % txt[:200])
            else:
                ctx.tie_broken("C18 model vs implementation (per-step counter / queue length / published letters)", detail)

    for sig, (what, replay) in first.items():
        n = reported[sig]
        ctx.violation(sig, what + (" [%d occurrences in this run]" % n if n > 1 else ""), replay)

    # ---- the theorems
    if not ctx.coq_property():
        if not any(f.kind == "violation" for f in ctx.findings):
            ctx.proof_broken("Properties/C18.v (%s)" % getattr(ctx, "failed_at", "?"), getattr(ctx, "coq_log", ""))
        else:
            ctx.notes.append("Coq obligation broken at %s; concrete failing input reported" % getattr(ctx, "failed_at", "?"))

    sample_rows = []
    if steps.get(0):
        for i in (0, 2, 13, 14, 23):
            if i < len(steps[0]):
                sample_rows.append({"op": {k: v for k, v in seqs[0][i].items() if k in ("K", "Via", "Snd", "Rcv", "Mid", "Tree", "Accepted")}, "implementation": steps[0][i]})
    ctx.coverage.update({
        "evaluations": n_rows + conc_msgs + sum(r["Sent"] for r in bound) + coal_stats["messages"],
        "distinct_nontrivial": len(hashes),
        "rule": "op sequences (25-70 ops, two starting with ~capacity queued batches, plus the witness corpus) mixing every drop cause, "
                "environment flags, address forms (canonical / IPv6 host / empty / garbage), undecodable payloads, bad metadata, drains, "
                "PublishDeadletters and count queries; non-trivial = at least one dead letter published; distinct by hash of the op list",
        "samples": sample_rows,
        "sequences": len(seqs), "steps_compared_with_model": n_rows, "model_mismatching_sequences": mism,
        "op_histogram": dict(op_hist), "drop_cause_x_message_kind": dict(kind_hist), "remote_tell_target_states": dict(state_hist),
        "coalescer_path_rounds": coal_stats,
        "demanded_dead_letters": stats["demanded"], "published_exactly_once": stats["published_once"],
        "excluded_by_code_branches": dict(stats["excluded_by_code"]), "lost_in_finding_classes": dict(stats["lost_finding"]),
        "concurrent_rounds": len(conc), "concurrent_dropped_messages": conc_msgs,
        "queue_bound_burst": bound[:1],
        "subscriber_events_missed_(C20_not_judged_here)": stats["subscriber_missed"],
        "address_parse_accepts_ipv6_canonical": table["V6Parse"] if table else None,
        "fan_out_queue_capacity": table["QueueCap"] if table else None,
        "finding_signatures_seen": dict(reported),
        "theorems": ["C18_counter_matches_published", "C18_counter_is_number_published", "C18_counter_changes_only_when_publishing",
                     "C18_per_receiver_counter", "C18_accounting", "C18_partial", "C18_exactly_once_partial", "C18_quiescence_reachable",
                     "C18_exactly_once_refuted_queue_full", "C18_exactly_once_refuted_unparseable_receiver",
                     "C18_sender_refuted_unparseable_sender", "C18_once_refuted_ask_enqueue_failure",
                     "C18_every_non_excluded_kind_is_dead_lettered", "C18_remote_tell_target_state"],
    })


META = {
    "ready": True,
    "category": "proof",
    "technique": "Rocq accounting invariant over all interleavings of drop sites, drain goroutine and dead-letter actor + per-step conformance of the real functions + exactly-once oracle",
    "text": "For every sequence of atomic steps of droppers (all causes), the coalescer's error handler, the drain goroutine and the dead-letter "
            "actor, with arbitrary environment readings: counter = number of events published by handleDeadletter; per-receiver counters likewise; "
            "published + in flight + lost(in a named branch) = demanded + duplicates(Ask after failed enqueue) as multisets of (message, receiver); "
            "under the explicit guard run_ok nothing is lost or duplicated and whole letters (message, sender, receiver) agree, each exactly once "
            "at quiescence, which is always reachable. Witnesses refute the unguarded statement (full fan-out queue, unparseable receiver/sender, "
            "Ask with failed enqueue) and are replayed on the real code. The real drop sites, deliverRemoteTellMessage, the coalesced-failure "
            "queue and the dead-letter actor are driven in-package on generated sequences and compared with the model after every op; a "
            "black-box concurrent run checks exactly-once with unique message ids. Generator dimensions: drop cause x message kind (user, "
            "AsyncRequest/AsyncResponse envelopes incl. a real ctx.Request, other internal messages, the three excluded ones), PID state bits of a "
            "registered remote-tell target (stopping/suspended/passivating/running bit/irrelevant bits; nothing may reach its mailbox), and "
            "consecutive failed batches produced by the real coalescer flush path (remoting.RemoteTell to nodes that hang up) before the drain runs, "
            "judged on the multiset of message ids.",
    "design_ref": "DESIGN.md 7/C18",
    "level_note": "Trusted: Coq kernel, hand-written model (conformance-checked each run), Go runtime channel/mailbox FIFO. Atomicity of the mailbox enqueue is C02/C03's subject.",
}
