"""C44 — work-pulling delivers every job to some worker.

Proof:  Properties/C44.v over C44/Model.v (wp_step mirrors workPullingProducerController.Receive); the worker side is
        the environment, so the theorems hold for EVERY input sequence: all join/leave patterns, all loss /
        duplication / reordering (even corruption) of worker traffic.
Tie:    (A) the real controller struct driven through its real Receive on a real ActorSystem with real worker
        endpoints/companions that really join, stop and re-join; traffic per recipient and the observable fields
        (pending, bindings in bindingOrder, cursor, handshake) compared with the Coq model after every step.
Oracle: on the real runs — every accepted job in exactly one of pending / some binding's unconfirmed / confirmed; each
        job confirmed to the producer at most once and only after some worker was sent it; a stopped worker's jobs are
        pending again at the front or already with another worker; no pending job while a live worker has free
        demand; cursor in range; bindings map and order agree; a RegistrationAck never tells a re-registering worker
        to resume beyond what it confirmed itself (worker-side state loss under the same PID is a generator dimension);
        a panic of the controller's Receive is captured and reported with the schedule; durable flows also get
        supervised restarts of the controller with workers attached (PreStart + PostStart on the same instance:
        no binding may survive, reloaded jobs are conserved). C44's text does not exclude producer-controller
        restarts (only C42's does), so they are in the oracle's domain for durable flows; a volatile flow loses its
        pool on restart by design and is not restarted.
"""
import json
import os
import time

import wp_util
from vlib import read_jsonl, canon_hash

THEOREMS = ["C44_conservation", "C44_exactly_one_place", "C44_structure", "C44_no_stuck_work", "C44_requeue_front"]


def run(ctx):
    ctx.trusted += ["Go harness drives the real controller's Receive directly (shell actor hosts lifecycle + PostStart); worker companions/endpoints are real actors (recorders), Terminated notices are delivered by the harness",
                    "companion identity c = 16*worker + incarnation; real uuids numbered by first appearance"]
    ctx.assumptions += ["volatile work queue (no DurableWorkQueue): the durable lane is a stated second layer (contract only)",
                        "worker-side behaviour is unconstrained (theorems quantify over all inputs); progress is stated as: no job stays pending while a live binding has free demand",
                        "sequence numbers below 2^63-1 (the controller's own guards are modelled)"]
    rng = ctx.rng
    plans = []
    if ctx.replay_path:
        rp = json.load(open(ctx.replay_path))
        plans = [rp["replay"]["plan"]]
    else:
        cdir = os.path.join(os.path.dirname(os.path.dirname(os.path.abspath(__file__))), "corpus", "C44")
        if os.path.isdir(cdir):
            for k, fn in enumerate(sorted(os.listdir(cdir))):
                if fn.endswith(".json"):
                    p = json.load(open(os.path.join(cdir, fn)))
                    p["id"] = "c44c%d" % k
                    plans.append(p)
        n = 300 if ctx.thorough else 36
        modes = ["steady"] * 3 + ["churn"] * 4 + ["hostile"] * 3
        for k in range(n):
            plans.append({"id": "c44g%d" % k, "mode": rng.choice(modes), "notify": rng.random() < 0.8, "window": rng.choice([1, 2, 3, 4, 6]),
                          "workers": rng.choice([1, 2, 3, 3, 4]), "steps": rng.randint(120, 320), "seed": rng.randrange(1, 2 ** 62)})
        for k in range(60 if ctx.thorough else 8):
            # the durable work-queue lane (asynchronous Store/Accept/ConfirmMessage): oracle only
            plans.append({"id": "c44d%d" % k, "mode": rng.choice(["steady", "churn", "churn"]), "notify": True, "window": rng.choice([2, 3, 4]), "durable": True,
                          "workers": rng.choice([2, 3]), "steps": rng.randint(150, 320), "seed": rng.randrange(1, 2 ** 62)})
    with open(os.path.join(ctx.work, "c44_plans.jsonl"), "w") as f:
        for p in plans:
            f.write(json.dumps(p) + "\n")
    outp = os.path.join(ctx.work, "c44_cases.jsonl")
    if os.path.exists(outp):
        os.remove(outp)
    ctx.log("running %d plans on the real controller" % len(plans))
    rc, out = ctx.go_test("actor", "^TestVerifC44$", ["zz_verif_C44_test.go", "zz_verif_C42_test.go"], timeout=1500)
    ctx.log("go harness done rc=%d" % rc)
    cases = read_jsonl(outp)
    errs = [c for c in cases if c.get("error")]
    if rc != 0 or len(cases) != len(plans) or errs:
        ctx.tie_broken("go-harness actor work-pulling controller", {"rc": rc, "cases": len(cases), "plans": len(plans),
                                                                   "errors": [c["error"] for c in errs][:3], "tail": out[-2500:]})
    cases = [c for c in cases if not c.get("error")]
    plan_by_id = {p["id"]: p for p in plans}

    def replay_of(c, upto):
        p = dict(plan_by_id.get(c["id"], {}))
        p.update({"id": c["id"] + "r", "ops": c["ops"][:upto], "events": [e for e in c["events"] if int(e.split(":")[0]) < upto]})
        return {"plan": p, "test": "TestVerifC44",
                "how": "ops are fed verbatim to the real controller's Receive; events 'k:join c' / 'k:leave c' spawn / stop worker companion c before op k"}

    n_viol = 0
    for c in cases:
        for (sig, what, step) in wp_util.oracle_c44(c)[:1]:
            if n_viol < 4:
                ctx.violation(sig, "%s (case %s, mode %s, step %d of %d)" % (what, c["id"], c["mode"], step, len(c["ops"])), replay_of(c, step))
            n_viol += 1

    ok_model, mo = ctx.coq_build(["theories/C44/Tie.vo"])
    mism = None
    all_cases = None
    if not ok_model:
        ctx.tie_broken("C44/Model.v does not compile", mo)
    elif cases:
        t0 = time.time()
        all_cases = cases
        cases = [c for c in all_cases if not c.get("durable")]
        rc2, o2 = ctx.coq_eval("cases_C44", wp_util.cases_v(cases))
        res = wp_util.parse_summary(o2)
        ctx.log("coq model evaluated on %d cases in %.1fs" % (len(cases), time.time() - t0))
        if rc2 != 0 or res is None or res[0] != len(cases):
            ctx.tie_broken("model evaluation (cases.v did not evaluate)", o2)
        else:
            mism = res[1]
            for (ci, step, mobs) in res[2][:2]:
                c = cases[ci]
                iobs = c["obs"][step] if step < len(c["obs"]) else None

                def dec(r):
                    try:
                        return wp_util.decode(r) if r else None
                    except Exception as e:  # undecodable row: still report the raw numbers
                        return "undecodable: %s" % e
                ctx.tie_broken("model-vs-implementation C44 step",
                               {"case": c["id"], "mode": c["mode"], "step": step, "op": c["ops"][step - 1] if step > 0 else "init",
                                "model_obs": mobs, "impl_obs": iobs, "model": dec(mobs), "impl": dec(iobs),
                                "mismatching_cases": res[1], "replay": replay_of(c, step)})

    if all_cases is not None:
        cases = all_cases
    ctx.log("building the Coq closure of Properties/C44.v")
    if not ctx.coq_property():
        if not any(f.kind == "violation" for f in ctx.findings):
            ctx.proof_broken("Properties/C44.v (%s)" % getattr(ctx, "failed_at", "?"), getattr(ctx, "coq_log", ""))
        else:
            ctx.notes.append("Coq obligation broken at %s; concrete failing input reported" % getattr(ctx, "failed_at", "?"))

    hist, modes_h = {}, {}
    joins = leaves = requeues = 0
    nontriv = set()
    confirmed = 0
    for c in cases:
        modes_h[c["mode"]] = modes_h.get(c["mode"], 0) + 1
        for o in c["ops"]:
            hist[o["op"]] = hist.get(o["op"], 0) + 1
        j = sum(1 for e in c["events"] if "join" in e)
        l = sum(1 for e in c["events"] if "leave" in e)
        joins += j
        leaves += l
        nconf = 0
        rq = 0
        prev = None
        for k, r in enumerate(c["obs"]):
            g = wp_util.decode(r)
            nconf += sum(1 for m in g["toProd"] if m[0] == 5)
            if k > 0 and c["ops"][k - 1]["op"] == "Terminated" and prev is not None:
                gone = [b_ for b_ in prev["S"]["bindings"] if b_ and b_["ctrl"] == c["ops"][k - 1].get("ctrl")]
                if gone and gone[0]["unconf"]:
                    rq += 1
            prev = g
        requeues += rq
        confirmed += nconf
        if rq >= 1 and l >= 1 and (nconf >= 2 or not c["notify"]):
            nontriv.add(canon_hash([c["notify"], c["ops"], c["events"]]))
    ctx.coverage.update({
        "evaluations": sum(len(c["ops"]) for c in cases if not c.get("durable")),
        "oracle_only_steps_durable": sum(len(c["ops"]) for c in cases if c.get("durable")),
        "distinct_nontrivial": len(nontriv),
        "rule": "one evaluation = one step of the real controller's Receive compared with the Coq model (traffic per recipient, pending, every binding in bindingOrder, cursor, handshake); "
                "a case is non-trivial when a worker holding unconfirmed jobs stopped (requeue exercised), at least one worker left, and >= 2 jobs were confirmed; distinct by (notify, ops, events)",
        "cases": len(cases), "modes": modes_h, "op_histogram": hist, "worker_joins": joins, "worker_leaves": leaves,
        "requeues_with_work": requeues, "durable_work_queue_cases_oracle_only": sum(1 for c in cases if c.get("durable")), "confirmations": confirmed, "failed_flows": sum(1 for c in cases if c.get("failed")),
        "model_mismatching_cases": mism,
        "samples": [{"id": c["id"], "mode": c["mode"], "events": c["events"][:6], "ops": c["ops"][:8], "last_obs": c["obs"][-1]} for c in cases[:2]],
        "theorems": THEOREMS,
    })


META = {
    "ready": True,
    "category": "proof",
    "technique": "Rocq inductive invariants over an executable model of the work-pulling controller (all input sequences) + actor-step conformance of the real controller with real joining/leaving workers",
    "text": "For EVERY input sequence (all worker join/leave patterns, all faults on worker traffic): the accepted jobs are a permutation of pending ++ all bindings' unconfirmed ++ confirmed, with pairwise distinct store sequences (each job in exactly one place, confirmed at most once); bindings map and bindingOrder agree, the round-robin cursor stays in range and indexing never fails; each binding's unconfirmed list is the contiguous run (confirmedSeq, currentSeq]; a stopped worker's jobs return to the front of pending in order and no job stays pending while a live binding has free demand. The real controller runs generated schedules with real workers joining, stopping and re-joining, and must agree with the Coq model step by step.",
    "design_ref": "DESIGN.md 7/C44",
    "level_note": "Proved over the volatile controller. Second layer (real code + oracle, no Coq model): durable work-queue lane with delayed asynchronous results. Not covered: remote worker authentication (its verdict is an oracle input), the worker-side consumer controller (C42).",
}
