"""C05 — the dispatcher never loses or duplicates a scheduled actor.

Proof:  Properties/C05.v over C05/Model.v (mirror of actor/ready_queue.go): ring refinement to FIFO
        lists for every capacity (wrap-around, doubling), stealHalf, and the concurrent invariants
        (ticket conservation, no lost wake-up for the global ring, close exits) over `creach`.
Tie:    (a) op sequences on the real readyQueue/localQueue/globalQueue (K=256, initial global cap 64;
            overflow at 257 pushes, growth at 65/129 with head != 0, steal into a nearly full ring) —
            outputs and ring state after every step compared with the Coq model (vm_compute);
        (b) source-order tie of the lock-protected sections and the worker's take order vs the
            model's worker program (tools/protoorder);
        (c) real-goroutine stress with token ids (exactly once, exit after close, parked-with-work);
        (d) scripted park/close witnesses P1..P6.
Oracle: an independent FIFO/multiset simulation in Python on every sequential run; token ledger.
"""
import ast
import collections
import json
import os
import re

from vlib import read_jsonl, canon_hash
import dispatch_util as du

K = 256
GCAP = 64
IDMOD = 997  # the Coq side sees ticket ids modulo a prime (unary nat); the Go side and the oracle use unique ids


# ------------------------------------------------------------------ case generation
class Sim:
    """the property's own reference: FIFO lists with a bounded local capacity (independent of the Coq model)"""

    def __init__(self, n):
        self.n = n
        self.locals = [[] for _ in range(n)]
        self.glob = []

    def total(self):
        return len(self.glob) + sum(len(q) for q in self.locals)

    def steal(self, v, w):
        q, d = self.locals[v], self.locals[w]
        if v == w or not q:
            return -1
        stolen = (len(q) + 1) // 2
        h = q.pop(0)
        m = min(stolen - 1, K - len(d))
        d.extend(q[:m])
        del q[:m]
        return h

    def try_steal(self, w):
        if self.n == 1:
            return -1
        for i in range(1, self.n):
            v = (w + i) % self.n
            if not self.locals[v]:
                continue
            r = self.steal(v, w)
            if r != -1:
                return r
        return -1

    def apply(self, op):
        o = op["op"]
        if o == "push":
            self.glob.append(op["id"])
            return -1
        if o == "pushLocal":
            q = self.locals[op["w"]]
            (q if len(q) < K else self.glob).append(op["id"])
            return -1
        if o == "popLocal":
            q = self.locals[op["w"]]
            return q.pop(0) if q else -1
        if o == "popGlobal":
            return self.glob.pop(0) if self.glob else -1
        if o == "steal":
            return self.steal(op["v"], op["w"])
        if o == "trySteal":
            return self.try_steal(op["w"])
        if o == "take":
            q = self.locals[op["w"]]
            if q:
                return q.pop(0)
            if self.glob:
                return self.glob.pop(0)
            return self.try_steal(op["w"])
        raise ValueError(o)

    def reachable(self, w):
        """can take(w) return without parking?"""
        if self.locals[w] or self.glob:
            return True
        return self.n > 1 and any(self.locals[(w + i) % self.n] for i in range(1, self.n))


def gen_cases(ctx):
    rng = ctx.rng
    cases = []
    nid = [0]

    def fresh():
        nid[0] += 1
        return nid[0]

    def mk(name, n, ops, full):
        cases.append({"name": name, "workers": n, "full": full, "ops": ops})

    # corpus 1: local ring wrap-around and overflow spill (257+ pushes), then drain
    ops = [{"op": "pushLocal", "w": 0, "id": fresh()} for _ in range(200)]
    ops += [{"op": "popLocal", "w": 0} for _ in range(150)]
    ops += [{"op": "pushLocal", "w": 0, "id": fresh()} for _ in range(210)]   # wraps; 260 live -> 4 spill
    ops += [{"op": "steal", "v": 0, "w": 1}]
    ops += [{"op": "take", "w": 1} for _ in range(40)]
    ops += [{"op": "popLocal", "w": 0} for _ in range(130)] + [{"op": "popGlobal"} for _ in range(6)]
    mk("local wrap-around, overflow spill at 256, steal of 128", 2, ops, False)
    # corpus 2: global growth with head != 0 (65th and 129th live item)
    ops = [{"op": "push", "id": fresh()} for _ in range(40)] + [{"op": "popGlobal"} for _ in range(30)]
    ops += [{"op": "push", "id": fresh()} for _ in range(60)]       # 70 live: grows to 128 with head=30
    ops += [{"op": "popGlobal"} for _ in range(20)]
    ops += [{"op": "push", "id": fresh()} for _ in range(90)]       # 140 live: grows to 256 with head != 0
    ops += [{"op": "take", "w": 0} for _ in range(140)] + [{"op": "popGlobal"}]
    mk("global growth 64->128->256 with head != 0", 1, ops, False)
    # corpus 3: steal into a nearly full destination (the `dst.size == cap` break)
    ops = [{"op": "pushLocal", "w": 1, "id": fresh()} for _ in range(250)]
    ops += [{"op": "pushLocal", "w": 0, "id": fresh()} for _ in range(100)]
    ops += [{"op": "steal", "v": 0, "w": 1}, {"op": "steal", "v": 0, "w": 1}, {"op": "steal", "v": 1, "w": 2}, {"op": "trySteal", "w": 0}]
    ops += [{"op": "popLocal", "w": 2} for _ in range(5)]
    mk("steal into a nearly full ring", 3, ops, False)
    # corpus 4: small exhaustive-ish sequences with full contents
    for n, seq in [(2, ["pushLocal0", "pushLocal0", "pushLocal0", "steal01", "popLocal1", "popLocal0", "popLocal0", "popLocal0"]),
                   (2, ["pushLocal0"] * 5 + ["steal01", "steal01", "steal10", "trySteal0"]),
                   (1, ["pushLocal0", "trySteal0", "take0", "push", "take0"]),
                   (3, ["push", "pushLocal2", "take0", "take0", "pushLocal1", "trySteal0", "steal12"])]:
        ops = []
        for s in seq:
            if s == "push":
                ops.append({"op": "push", "id": fresh()})
            elif s.startswith("pushLocal"):
                ops.append({"op": "pushLocal", "w": int(s[-1]), "id": fresh()})
            elif s.startswith("popLocal"):
                ops.append({"op": "popLocal", "w": int(s[-1])})
            elif s.startswith("steal"):
                ops.append({"op": "steal", "v": int(s[-2]), "w": int(s[-1])})
            elif s.startswith("trySteal"):
                ops.append({"op": "trySteal", "w": int(s[-1])})
            elif s.startswith("take"):
                ops.append({"op": "take", "w": int(s[-1])})
        mk("small " + " ".join(seq), n, ops, True)
    # random structured cases
    n_rand = 60 if ctx.thorough else 10
    for c in range(n_rand):
        n = rng.choice([1, 2, 2, 3, 4])
        sim = Sim(n)
        ops = []
        length = rng.randint(30, 90) if c % 4 else rng.randint(250, 500)
        bias_push = rng.choice([0.45, 0.55, 0.7])
        for _ in range(length):
            r = rng.random()
            if r < bias_push:
                if rng.random() < 0.5:
                    op = {"op": "push", "id": fresh()}
                else:
                    op = {"op": "pushLocal", "w": rng.randrange(n), "id": fresh()}
                    if rng.random() < 0.3:  # bursts on one ring
                        for _ in range(rng.randint(2, 40)):
                            o2 = {"op": "pushLocal", "w": op["w"], "id": fresh()}
                            sim.apply(o2)
                            ops.append(o2)
            else:
                kind = rng.choice(["popLocal", "popGlobal", "steal", "trySteal", "take", "take"])
                w = rng.randrange(n)
                if kind == "take":
                    if not sim.reachable(w):
                        kind = "popGlobal"
                op = {"op": kind, "w": w}
                if kind == "steal":
                    op["v"] = rng.randrange(n)
            sim.apply(op)
            ops.append(op)
        mk("random-%d" % c, n, ops, length <= 90)
    # a malformed stream: pops on empty, steal from self, trySteal in a pool of one
    mk("malformed: empty pops, self steal", 2,
       [{"op": "popLocal", "w": 0}, {"op": "popGlobal"}, {"op": "steal", "v": 1, "w": 1}, {"op": "trySteal", "w": 1},
        {"op": "pushLocal", "w": 1, "id": fresh()}, {"op": "steal", "v": 1, "w": 1}, {"op": "popLocal", "w": 0}, {"op": "popLocal", "w": 1},
        {"op": "popLocal", "w": 1}], True)
    return cases


# ------------------------------------------------------------------ oracle on the implementation
def seq_oracle(ctx, cases, outs):
    bad = 0
    for c, o in zip(cases, outs):
        sim = Sim(c["workers"])
        for k, (op, st) in enumerate(zip(c["ops"], o["steps"])):
            want = sim.apply(op)
            problem = None
            if st.get("blocked"):
                problem = "take(%d) blocked although an item was reachable" % op["w"]
            elif st["out"] != want:
                problem = "%s returned %d, FIFO/steal semantics require %d" % (op["op"], st["out"], want)
            else:
                for w, r in enumerate(st["locals"]):
                    if r["size"] != len(sim.locals[w]) or r["size_atomic"] != r["size"] or r.get("nil_in_live") or r.get("garbage", 0):
                        problem = "local ring %d after %s: size %d (sizeAtomic %d, nil in live window %s, stale slots %d), expected size %d" % (
                            w, op["op"], r["size"], r["size_atomic"], r.get("nil_in_live", False), r.get("garbage", 0), len(sim.locals[w]))
                    elif c["full"] and r.get("items", []) != sim.locals[w]:
                        problem = "local ring %d after %s holds %s, expected %s" % (w, op["op"], r.get("items", [])[:8], sim.locals[w][:8])
                g = st["global"]
                if g["size"] != len(sim.glob) or g["size_atomic"] != g["size"] or g.get("nil_in_live") or g.get("garbage", 0):
                    problem = "global ring after %s: size %d (globalCount %d, nil in live window %s, stale slots %d), expected size %d" % (
                        op["op"], g["size"], g["size_atomic"], g.get("nil_in_live", False), g.get("garbage", 0), len(sim.glob))
                elif c["full"] and g.get("items", []) != sim.glob:
                    problem = "global ring after %s holds %s, expected %s" % (op["op"], g.get("items", [])[:8], sim.glob[:8])
            if problem:
                bad += 1
                if bad <= 3:
                    ctx.violation("ready-queue:sequential:" + op["op"],
                                  "case %r step %d: %s (a ticket is lost, duplicated or reordered)" % (c["name"], k, problem),
                                  {"case": c["name"], "workers": c["workers"], "ops_prefix": c["ops"][:k + 1][-40:], "step": k, "observed": st})
                break
        else:
            f = o["final"]
            got = [r.get("items", []) for r in f["locals"]], f["global"].get("items", [])
            if got != (sim.locals, sim.glob):
                bad += 1
                if bad <= 3:
                    ctx.violation("ready-queue:sequential:final-contents",
                                  "case %r: final ring contents differ from the FIFO reference" % c["name"],
                                  {"case": c["name"], "got": str(got)[:600], "want": str((sim.locals, sim.glob))[:600]})
    return bad


# ------------------------------------------------------------------ the Coq model on the same cases
def coq_term_to_py(txt):
    t = txt.replace(";", ",").replace("%N", "")
    t = re.sub(r"Some (\d+)", r"\1", t)
    t = t.replace("None", "-1")
    return ast.literal_eval(t)


def coq_op(op):
    o = op["op"]
    if o == "push":
        return "QPush %d" % (op["id"] % IDMOD)
    if o == "pushLocal":
        return "QPushLocal %d %d" % (op["w"], op["id"] % IDMOD)
    if o == "popLocal":
        return "QPopLocal %d" % op["w"]
    if o == "popGlobal":
        return "QPopGlobal"
    if o == "steal":
        return "QSteal %d %d" % (op["v"], op["w"])
    if o == "trySteal":
        return "QTrySteal %d" % op["w"]
    return "QTake %d" % op["w"]


def model_conformance(ctx, cases, outs):
    defs = []
    for i, c in enumerate(cases):
        defs.append("Definition ops%d := [%s]." % (i, "; ".join(coq_op(o) for o in c["ops"])))
    runs = "; ".join("(q_run_digest %d (new_rq %d %d %d) ops%d, obs (q_final %d (new_rq %d %d %d) ops%d))" %
                     (GCAP, c["workers"], K, GCAP, i, GCAP, c["workers"], K, GCAP, i) for i, c in enumerate(cases))
    body = """From Coq Require Import List Arith Bool NArith. Import ListNotations.
From GV Require Import C05.Model.
(* results are converted to binary numbers before they are read back and printed *)
Definition cN := N.of_nat.
Definition cO (o : option tok) := option_map cN o.
Definition cD (d : option tok * (list (nat * nat) * (nat * nat * nat))) :=
  match d with (o, (l, (a, b, c))) => (cO o, (map (fun p => (cN (fst p), cN (snd p))) l, (cN a, cN b, cN c))) end.
Definition cR (r : nat * nat * nat * nat * list (option tok)) :=
  match r with (a, b, c, d, l) => (cN a, cN b, cN c, cN d, map cO l) end.
Definition cF (f : list (nat * nat * nat * nat * list (option tok)) * (nat * nat * nat * nat * list (option tok))) :=
  (map cR (fst f), cR (snd f)).
%s
Definition allruns := [%s].
Eval vm_compute in (map (fun x => (map cD (fst x), cF (snd x))) allruns).
""" % ("\n".join(defs), runs)
    rc, out = ctx.coq_eval("cases_C05", body, timeout=900)
    flat = " ".join(out.split())
    m = re.search(r"= (\[.*\]) : list", flat)
    if rc != 0 or not m:
        ctx.tie_broken("ready-queue conformance (cases_C05.v did not evaluate)", out[-3000:])
        return None
    try:
        model = coq_term_to_py(m.group(1))
    except Exception as e:  # noqa
        ctx.tie_broken("ready-queue conformance (cannot parse the model's output)", "%s: %s" % (e, m.group(1)[:500]))
        return None
    mism = []
    steps = 0
    for c, o, (dig, fin) in zip(cases, outs, model):
        for k, (st, d) in enumerate(zip(o["steps"], dig)):
            steps += 1
            mout, (mlocals, (gh, gs, gc)) = d
            got = (st["out"] % IDMOD if st["out"] >= 0 else st["out"], [(r["head"], r["size"]) for r in st["locals"]], (st["global"]["head"], st["global"]["size"], st["global"]["cap"]))
            want = (mout, [tuple(x) for x in mlocals], (gh, gs, gc))
            if got != want:
                mism.append({"case": c["name"], "step": k, "op": c["ops"][k], "go": str(got), "model": str(want)})
                break
        else:
            flocals, fglobal = fin
            md = lambda l: [x % IDMOD for x in l]
            gotf = ([(r["head"], r["tail"], r["size"], r["cap"], md(r.get("items", []))) for r in o["final"]["locals"]],
                    (o["final"]["global"]["head"], o["final"]["global"]["tail"], o["final"]["global"]["size"], o["final"]["global"]["cap"], md(o["final"]["global"].get("items", []))))
            wantf = ([(a, b, s, cp, list(it)) for (a, b, s, cp, it) in flocals], (fglobal[0], fglobal[1], fglobal[2], fglobal[3], list(fglobal[4])))
            if gotf != wantf:
                mism.append({"case": c["name"], "step": "final", "go": str(gotf)[:500], "model": str(wantf)[:500]})
    if mism:
        ctx.tie_broken("ready_queue.go rings vs Coq model (head/size/cap/output after every step, contents at the end)", {"mismatches": len(mism), "first": mism[:3]})
    return steps, len(mism)


# ------------------------------------------------------------------ source-order tie
PO_SPEC = {"files": ["actor/ready_queue.go", "actor/worker.go", "actor/dispatcher.go"], "depth": 6, "stop": [], "iface": {},
           "track": [], "reads": ["closed", "parked", "size"],
           "entries": [{"name": "push", "recv": "readyQueue", "func": "push"}, {"name": "pushLocal", "recv": "readyQueue", "func": "pushLocal"},
                       {"name": "take", "recv": "readyQueue", "func": "take"}, {"name": "parkAndTake", "recv": "readyQueue", "func": "parkAndTake"},
                       {"name": "close", "recv": "readyQueue", "func": "close"}, {"name": "stealHalf", "recv": "localQueue", "func": "stealHalf"},
                       {"name": "popFront", "recv": "localQueue", "func": "popFront"}, {"name": "pushBack", "recv": "localQueue", "func": "pushBack"},
                       {"name": "popGlobal", "recv": "readyQueue", "func": "popGlobal"},
                       {"name": "worker.run", "recv": "worker", "func": "run"}, {"name": "worker.reschedule", "recv": "worker", "func": "reschedule"},
                       {"name": "dispatcher.schedule", "recv": "dispatcher", "func": "schedule"}, {"name": "dispatcher.signalStop", "recv": "dispatcher", "func": "signalStop"}]}

GSTORE = "globalCount.Store(int32(rq.global.size))"
# model operation kind (C05.Model.wpc_op) -> the source tokens its atomic section must contain, in order
QOP_TOKENS = {
    "QLocalProbe": ["sizeAtomic.Load"],
    "QLocalPop": ["mu.Lock", "rd:size", "dec:size", "sizeAtomic.Store(int32(q.size))", "mu.Unlock"],
    "QGlobalProbe": ["globalCount.Load"],
    "QGlobalPop": ["parkMu.Lock", "dec:size", GSTORE, "parkMu.Unlock"],
    "QStealProbe": ["sizeAtomic.Load"],
    "QStealLocked": ["first.mu.Lock", "second.mu.Lock", "rd:size", "dec:size", "inc:size", "sizeAtomic.Store(int32(q.size))", "sizeAtomic.Store(int32(dst.size))"],
    "QParkSection": ["parkMu.Lock", "rd:closed", "rd:global.size", "inc:parked", "cond.Wait"],
    "QWakeSection": ["dec:parked", "rd:closed", "rd:global.size"],
    "QTurnEnd": ["s.runTurn"],
}
SECTIONS = {  # single-section operations of the model (labels CPush / CClose / CRepush)
    "push": ["parkMu.Lock", "inc:size", GSTORE, "rd:parked", "cond.Signal", "parkMu.Unlock"],
    "close": ["parkMu.Lock", "set:closed", "cond.Broadcast", "parkMu.Unlock"],
    "pushBack": ["mu.Lock", "rd:size", "mu.Unlock", "set:buf[]", "inc:size", "sizeAtomic.Store(int32(q.size))", "mu.Unlock"],
    "pushLocal": ["mu.Lock", "inc:size", "mu.Unlock", "parkMu.Lock", "inc:size", "cond.Signal", "parkMu.Unlock"],
    "worker.reschedule": ["mu.Lock", "inc:size", "parkMu.Lock", "cond.Signal"],
    "dispatcher.schedule": ["parkMu.Lock", "inc:size", "cond.Signal", "parkMu.Unlock"],
    "dispatcher.signalStop": ["parkMu.Lock", "set:closed", "cond.Broadcast", "parkMu.Unlock"],
}
WORKER_PATHS = {
    "nothing anywhere: probe local, global, sibling, park; woken by a push; turn": "[CStep 0; CStep 0; CStep 0; CStep 0; CPush; CStep 0; CStep 0]",
    "own local ring first": "[CStep 0; CStep 0; CStep 0; CStep 0; CPush; CStep 0; CRepush 0; CStep 0; CStep 0; CStep 0; CStep 0]",
    "global ring second": "[CPush; CStep 1; CStep 1; CStep 1; CStep 1]",
    "steal from a sibling third": "[CPush; CStep 0; CStep 0; CStep 0; CRepush 0; CRepush 0; CRepush 0; CStep 1; CStep 1; CStep 1; CStep 1; CStep 1]",
}


def source_tie(ctx):
    ok, po = du.protoorder(ctx, PO_SPEC, "c05")
    if not ok:
        ctx.tie_broken("source-order extractor (tools/protoorder) failed", po)
        return None
    ent = po["entries"]
    missing = [k for k, v in ent.items() if v is None]
    if missing:
        ctx.tie_broken("anchored functions not found in the source", {"missing": missing})
        return None
    problems = []
    for name, want in SECTIONS.items():
        toks = du.flatten(ent[name], 1)
        okk, at = du.embed([{t} for t in want], toks)
        if not okk:
            problems.append({"function": name, "missing_or_out_of_order": want[at], "expected_order": want, "source": toks[:50]})
    # structure of parkAndTake: everything happens inside the loop, under the lock taken before it
    pat = ent["parkAndTake"]
    loops = [it for it in pat if isinstance(it, dict) and "loop" in it]
    if not (pat and pat[0] == "parkMu.Lock" and len(loops) == 1 and "cond.Wait" in du.flatten(loops[0]["loop"], 1)
            and "rd:closed" in du.flatten(loops[0]["loop"], 1)):
        problems.append({"function": "parkAndTake", "structure": "Lock; for { closed? ; size>0? ; parked++ ; Wait ; parked-- }", "source": str(pat)[:400]})
    # the worker program of the model along the take order
    names = list(WORKER_PATHS)
    body = """From Coq Require Import List Arith Bool. Import ListNotations.
From GV Require Import C05.Model.
Definition start := match crun 4 (c_init 2) [CSpawnWorker; CSpawnWorker] with Some s => s | None => c_init 2 end.
Definition all := [%s].
Eval vm_compute in (map (map fst) all).
Eval vm_compute in (map (map snd) all).
""" % "; ".join("ctrace 4 start %s" % WORKER_PATHS[n] for n in names)
    rc, out = ctx.coq_eval("traces_C05", body)
    chunks = [c for c in re.split(r"\n\s*=", "\n" + out) if c.strip()]
    tids = du.parse_opk_lists("= " + chunks[0]) if rc == 0 and len(chunks) >= 2 else None
    ops = du.parse_opk_lists("= " + chunks[1]) if tids is not None else None
    n_paths = 0
    if not tids or not ops:
        ctx.tie_broken("model traces (traces_C05.v) did not evaluate", out[-2000:])
    else:
        run_toks = du.flatten(ent["worker.run"], 3)
        for n, t, o in zip(names, tids, ops):
            per = collections.OrderedDict()
            for ti, oi in zip(t, o):
                per.setdefault(int(ti), []).append(oi)
            for th, seq in per.items():
                path = []
                for q in seq:
                    path += [{x} for x in QOP_TOKENS.get(q, [])]
                okk, at = du.embed(path, run_toks)
                n_paths += 1
                if not okk:
                    problems.append({"function": "worker.run/take", "model_path": n, "worker": th, "model_ops": seq,
                                     "first_unmatched_token": sorted(path[at])[0] if at < len(path) else None})
    if problems:
        ctx.tie_broken("source order of ready-queue operations vs model sections", {"problems": problems[:6]})
    return {"sections_checked": len(SECTIONS), "worker_paths_checked": n_paths, "problems": len(problems)}


def run(ctx):
    ctx.trusted += ["hand-written model C05/Model.v (tied by step-by-step conformance of the real rings, the source-order extractor, scripted park/close witnesses)",
                    "sync.Mutex / sync.Cond semantics (each lock-protected section is one atomic step; Signal wakes one waiter, Broadcast all)",
                    "lock ordering in stealHalf (lockOrder) is not modelled: sections are atomic in the model"]
    ctx.assumptions += ["worker ids are distinct and index the local rings (dispatcher.newDispatcher)",
                        "tickets are non-nil schedulables"]
    okm, outm = ctx.coq_build(["theories/C05/Model.vo"])
    if not okm:
        ctx.tie_broken("C05/Model.v does not compile", outm)
    ctx.log("model built")
    tie = source_tie(ctx) if okm else None
    ctx.log("source tie done")

    cases = gen_cases(ctx)
    with open(os.path.join(ctx.work, "c05_seq_in.jsonl"), "w") as f:
        for c in cases:
            f.write(json.dumps(c) + "\n")
    for fn in ("c05_seq_out.jsonl", "c05_stress_out.jsonl", "c05_scen_out.jsonl"):
        p = os.path.join(ctx.work, fn)
        if os.path.exists(p):
            os.remove(p)
    files = ["zz_verif_C05_test.go", "zz_verif_dispatchlib_test.go"]
    rc, out = ctx.go_test("actor", "^TestVerifC05", files, env={"VERIF_THOROUGH": "1" if ctx.thorough else "0"}, timeout=1200)
    ctx.log("go harness done rc=%d" % rc)
    outs = read_jsonl(os.path.join(ctx.work, "c05_seq_out.jsonl"))
    stress = read_jsonl(os.path.join(ctx.work, "c05_stress_out.jsonl"))
    scen = read_jsonl(os.path.join(ctx.work, "c05_scen_out.jsonl"))
    if rc != 0 or len(outs) != len(cases) or not stress or not scen:
        ctx.tie_broken("go-harness TestVerifC05*", out[-4000:])
    if ctx.thorough:
        os.makedirs(os.path.join(ctx.work, "race"), exist_ok=True)
        rc2, out2 = ctx.go_test("actor", "^TestVerifC05(Stress|Scenarios)", files, env={"VERIF_THOROUGH": "0", "VERIF_OUT": os.path.join(ctx.work, "race")}, race=True, timeout=1500)
        if "DATA RACE" in out2:
            ctx.notes.append("-race reported a data race (supporting evidence only): " + out2[-1500:])

    seq_bad = seq_oracle(ctx, cases, outs) if len(outs) == len(cases) else 0
    conf = model_conformance(ctx, cases, outs) if okm and len(outs) == len(cases) else None
    ctx.log("sequential oracle and model conformance done")

    n_bad = 0
    for o in stress:
        what = None
        if o["duplicates"] or o["unknown"]:
            what = ("ticket-duplicated", "a pushed ticket was taken more than once (%d duplicates, %d unknown ids)" % (o["duplicates"], o["unknown"]))
        elif o["stalled"] or o["lost"]:
            what = ("ticket-lost-or-stall", "pushed tickets were never taken (%d lost; workers parked with work in the global ring: %s; %s)" % (o["lost"], o["parked_with_global_work"], o["detail"]))
        elif not o["all_workers_exited_after_close"]:
            what = ("close-does-not-exit", "a worker did not exit after close()")
        if what:
            n_bad += 1
            if n_bad <= 3:
                ctx.violation("ready-queue:stress:" + what[0], "%d workers, GOMAXPROCS %d: %s" % (o["workers"], o["procs"], what[1]), o)
    for o in scen:
        if not o["ok"]:
            n_bad += 1
            ctx.violation("ready-queue:scenario:" + o["name"].split()[0], "%s: %s (%s)" % (o["name"], o["why"], o["detail"]), o)

    if not ctx.coq_property():
        if not any(f.kind == "violation" for f in ctx.findings):
            ctx.proof_broken("Properties/C05.v (%s)" % getattr(ctx, "failed_at", "?"), getattr(ctx, "coq_log", ""))
        else:
            ctx.notes.append("Coq obligation broken at %s; concrete failing input reported" % getattr(ctx, "failed_at", "?"))

    hist = collections.Counter(op["op"] for c in cases for op in c["ops"])
    distinct = {canon_hash(c["ops"]) for c in cases if len({op["op"] for op in c["ops"]}) >= 3}
    reached = {"local_overflow_spill": any(st["global"]["size"] > 0 and op["op"] == "pushLocal" for c, o in zip(cases, outs) for op, st in zip(c["ops"], o["steps"])),
               "global_cap_max": max([st["global"]["cap"] for o in outs for st in o["steps"]] or [0]),
               "local_wrap": any(r["tail"] < r["head"] for o in outs for st in o["steps"] for r in st["locals"])}
    ctx.coverage.update({
        "evaluations": sum(len(c["ops"]) for c in cases) + len(stress) + len(scen),
        "distinct_nontrivial": len(distinct) + sum(1 for o in stress if o["taken"] > 0) + sum(1 for o in scen if o["ok"]),
        "rule": "sequential op sequences on the real readyQueue (corpus: wrap-around/overflow/growth/near-full steal/small/malformed + seeded random structured cases with bursts; non-trivial = at least 3 different op kinds, distinct by op sequence) + stress runs that took tickets + scripted park/close witnesses that passed",
        "samples": [{"name": cases[3]["name"], "ops": cases[3]["ops"], "steps": outs[3]["steps"][:3]} if len(outs) > 3 else None,
                    stress[0] if stress else None, scen[0] if scen else None],
        "op_histogram": dict(hist), "cases": len(cases), "paths_reached": reached,
        "sequential_oracle_failures": seq_bad,
        "model_steps_compared": conf[0] if conf else None, "model_mismatching_cases": conf[1] if conf else None,
        "stress": [{k: o[k] for k in ("workers", "procs", "producers", "pushed", "taken", "global_cap_final")} for o in stress],
        "scenarios": [{"name": o["name"], "ok": o["ok"]} for o in scen],
        "source_tie": tie,
        "theorems": ["C05_local_push_fifo", "C05_local_pop_fifo", "C05_global_push_fifo_with_growth", "C05_global_pop_fifo", "C05_stealHalf",
                     "C05_stealHalf_moves_half", "C05_pop_never_nil", "C05_steal_refines", "C05_ticket_exactly_once", "C05_no_lost_wakeup",
                     "C05_parked_worker_local_empty", "C05_close_wakes_all", "C05_closed_stable", "C05_close_exits"],
    })


META = {
    "ready": True,
    "category": "proof",
    "technique": "Rocq refinement proof (rings -> FIFO lists, all capacities) + inductive invariants over a concurrent transition system + step-by-step conformance of the real rings + stress and scripted park/close witnesses",
    "text": "The ring buffers of ready_queue.go (local ring, global ring with doubling, stealHalf) are proved to refine FIFO lists for every capacity including wrap-around and growth; over the concurrent model (any number of producers, n workers, any interleaving, spurious wake-ups, re-pushes with spill) ticket conservation (every pushed ticket taken at most once, never lost), no lost wake-up for the global ring (waiters > 0 implies signalled workers >= queued global items), emptiness of a parked worker's local ring, and exit of every worker after close are proved as inductive invariants. The real rings are compared step by step with the model on op sequences that reach overflow at 256 and growth to 128/256 with a non-zero head.",
    "design_ref": "DESIGN.md 7/C05",
    "level_note": "Trusted: Coq kernel, hand-written model (tied as described), sync.Mutex/Cond semantics; lock ordering (deadlock freedom of stealHalf) is not modelled. Items in the local ring of a worker that is running a long turn do not wake parked workers (no signal on pushLocal): proved only that their owner is never parked.",
}
