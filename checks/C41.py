"""C41 — deleted CRDT keys stay deleted until their tombstone expires.

Proof : Properties/C41.v — invariant (tombstoned => no value, no version) preserved by every handler and hence by
        every message history; updates/deltas/full-state entries for a tombstoned key ignored; nothing exposed by
        Get (plain or coordinated), read requests, digests; only Prune with now - deletedAt > ttl removes a tombstone.
Tie   : the REAL replicatorActor (its real Receive) driven in-package, 2-3 replicas per history; every message a
        replica publishes (delta, tombstone, full state) is captured and re-delivered to any replica in any order,
        duplicated or never; coordinated reads ask the other real replicas; malformed keys/data; synthetic
        tombstones of any age; after EVERY step the replica's (store, versions, tombstones, keyTypes), its outgoing
        messages and its reply are compared with the Coq model (vm_compute) on the same history.
Oracle: independent of the model: tombstoned => absent; tombstone lifetime; nothing exposed.
"""
import os
import random
import time

from vlib import read_jsonl, canon_hash, zlit
import crdt_util as cu

SIG_GET = "replicator.handleGet:coordinated-read-on-tombstoned-key"
HOUR = 3600 * 10 ** 9


def gen_history(rng, hid, nsteps):
    nrepl = rng.choice([2, 3, 3])
    ttl = rng.choice([HOUR, HOUR, 1])
    msgs = []
    keys = [0, 1, 2, 3] if rng.random() < 0.5 else [0, 2]
    for _ in range(nsteps):
        r = rng.randrange(nrepl)
        k = rng.choice(keys)
        x = rng.random()
        if x < 0.26:
            if k < 2:
                msgs.append({"m": "update", "r": r, "k": k, "op": "inc", "v": rng.choice([0, 1, 2, 5]), "sender": rng.random() < 0.5})
            else:
                msgs.append({"m": "update", "r": r, "k": k, "op": rng.choice(["add", "add", "rem", "addrem"]), "e": rng.choice([1, 2, 3]), "sender": rng.random() < 0.5})
        elif x < 0.36:
            msgs.append({"m": "delete", "r": r, "k": k, "sender": rng.random() < 0.5})
        elif x < 0.58:
            msgs.append({"m": "deliver", "r": r, "out": rng.randrange(1000)})
        elif x < 0.64:
            msgs.append({"m": "get", "r": r, "k": k})
        elif x < 0.70:
            peers = [p for p in range(nrepl) if p != r and rng.random() < 0.8]
            msgs.append({"m": "getc", "r": r, "k": k, "peers": peers})
        elif x < 0.76:
            msgs.append({"m": "prune", "r": r})
        elif x < 0.82:
            msgs.append({"m": "digest", "r": r, "src": rng.randrange(nrepl)})
        elif x < 0.87:
            kind = rng.choice(["", "", "", "nilkey", "unspec", "badtype"])
            age = rng.choice([0, 1000, HOUR // 2, 2 * HOUR, -HOUR, 30 * HOUR])
            pt = (1 if k < 2 else 4) if rng.random() < 0.8 else rng.choice([1, 4, 7])
            msgs.append({"m": "tomb", "r": r, "k": k, "age": age, "by": rng.randrange(4), "ptype": pt, "kind": kind})
        elif x < 0.90:
            msgs.append({"m": "baddelta", "r": r, "k": k, "kind": rng.choice(["nildata", "nilkey", "badtype", "unspec", "own"])})
        elif x < 0.95:
            es = [{"k": rng.choice(keys), "from": rng.randrange(nrepl), "bad": rng.choice(["", "", "", "nilkey", "nildata", "badtype"])} for _ in range(rng.randrange(1, 4))]
            msgs.append({"m": "full", "r": r, "entries": es})
        elif x < 0.98:
            msgs.append({"m": "batch", "r": r, "own": rng.random() < 0.25, "deltas": [rng.randrange(1000) for _ in range(rng.randrange(0, 4))],
                         "tombs": [rng.randrange(1000) for _ in range(rng.randrange(0, 3))]})
        else:
            msgs.append({"m": "readreq", "r": r, "k": k, "kind": rng.choice(["", "", "nilkey", "badtype"])})
    return {"id": hid, "ttl": ttl, "nrepl": nrepl, "msgs": msgs}


def corpus():
    H = []
    # the coordinated read on a tombstoned key (C41_get_unrepaired_refuted)
    H.append({"ttl": HOUR, "nrepl": 3, "kind": "corpus-getc", "msgs": [
        {"m": "update", "r": 0, "k": 0, "op": "inc", "v": 3, "sender": True}, {"m": "deliver", "r": 1, "out": 0},
        {"m": "update", "r": 1, "k": 0, "op": "inc", "v": 2}, {"m": "delete", "r": 0, "k": 0, "sender": True},
        {"m": "get", "r": 0, "k": 0}, {"m": "getc", "r": 0, "k": 0, "peers": [1, 2]}, {"m": "get", "r": 0, "k": 0},
        {"m": "digest", "r": 0, "src": 2}]})
    # tombstone ignores later update / delta / full state / batch; pruned only when expired
    H.append({"ttl": HOUR, "nrepl": 2, "kind": "corpus-ignore", "msgs": [
        {"m": "update", "r": 0, "k": 2, "op": "add", "e": 1}, {"m": "deliver", "r": 1, "out": 0}, {"m": "delete", "r": 1, "k": 2, "sender": True},
        {"m": "update", "r": 0, "k": 2, "op": "add", "e": 2}, {"m": "deliver", "r": 1, "out": 2}, {"m": "update", "r": 1, "k": 2, "op": "add", "e": 3, "sender": True},
        {"m": "full", "r": 1, "entries": [{"k": 2, "from": 0, "bad": ""}]}, {"m": "batch", "r": 1, "own": False, "deltas": [0, 2], "tombs": []},
        {"m": "prune", "r": 1}, {"m": "get", "r": 1, "k": 2}, {"m": "deliver", "r": 0, "out": 1}, {"m": "get", "r": 0, "k": 2},
        {"m": "tomb", "r": 1, "k": 2, "age": 2 * HOUR, "by": 3, "ptype": 4, "kind": ""}, {"m": "prune", "r": 1}, {"m": "deliver", "r": 1, "out": 2}, {"m": "get", "r": 1, "k": 2}]})
    # the tombstone overtakes the data: replica 2 (late joiner) and replica 1 receive the tombstone before any delta
    H.append({"ttl": HOUR, "nrepl": 3, "kind": "corpus-tombstone-first", "msgs": [
        {"m": "update", "r": 0, "k": 0, "op": "inc", "v": 3}, {"m": "update", "r": 0, "k": 2, "op": "add", "e": 1}, {"m": "delete", "r": 0, "k": 0}, {"m": "delete", "r": 0, "k": 2},
        {"m": "deliver", "r": 1, "out": 2}, {"m": "deliver", "r": 1, "out": 0}, {"m": "get", "r": 1, "k": 0},
        {"m": "batch", "r": 2, "own": False, "deltas": [], "tombs": [2, 3]}, {"m": "deliver", "r": 2, "out": 1}, {"m": "deliver", "r": 2, "out": 0},
        {"m": "update", "r": 2, "k": 0, "op": "inc", "v": 1, "sender": True}, {"m": "get", "r": 2, "k": 0}, {"m": "get", "r": 2, "k": 2},
        {"m": "tomb", "r": 1, "k": 3, "age": 1000, "by": 3, "ptype": 4, "kind": ""}, {"m": "update", "r": 1, "k": 3, "op": "add", "e": 2}, {"m": "get", "r": 1, "k": 3},
        {"m": "full", "r": 1, "entries": [{"k": 2, "from": 1, "bad": ""}, {"k": 0, "from": 2, "bad": ""}]}]})
    # batch: a tombstone and deltas of the same key in one batch
    H.append({"ttl": 1, "nrepl": 2, "kind": "corpus-batch", "msgs": [
        {"m": "update", "r": 0, "k": 0, "op": "inc", "v": 1}, {"m": "delete", "r": 0, "k": 0}, {"m": "batch", "r": 1, "own": False, "deltas": [0], "tombs": [1]},
        {"m": "batch", "r": 1, "own": False, "deltas": [0], "tombs": []}, {"m": "prune", "r": 1}, {"m": "batch", "r": 1, "own": True, "deltas": [0], "tombs": []},
        {"m": "deliver", "r": 1, "out": 0}]})
    return H


def tombs_of(state):
    return dict((t[0], t) for t in state[2])


def hmsg_coq(m, step, n_outs_before, ttl):
    """Coq hmsg for the history item, with the clock readings the implementation made"""
    r = m["r"]
    k = m.get("k", 0)
    b = lambda x: "true" if x else "false"
    kind = m["m"]
    if kind == "update":
        n = r
        op = m["op"]
        u = {"inc": "UInc %d%%N %d%%N" % (n, m.get("v", 0)), "add": "UAdd %d%%N %d%%N" % (n, m.get("e", 0)),
             "rem": "URem %d%%N" % m.get("e", 0), "addrem": "UAddRem %d%%N %d%%N" % (n, m.get("e", 0))}[op]
        return "HUpdate %d %d%%N (%s) %s" % (r, k, u, b(m.get("sender")))
    if kind == "delete":
        t = tombs_of(step["state"]).get(k)
        at = t[2] if t else step["lo"]
        return "HDelete %d %d%%N %s%%Z %s" % (r, k, zlit(at), b(m.get("sender")))
    if kind == "get":
        return "HGet %d %d%%N" % (r, k)
    if kind == "getc":
        return "HGetc %d %d%%N [%s]" % (r, k, "; ".join("%d%%nat" % p for p in m["peers"]))
    if kind == "prune":
        return "HPrune %d %s%%Z" % (r, zlit(step["lo"]))
    if kind == "digest":
        return "HDigest %d %d" % (r, m["src"])
    if kind == "deliver":
        if n_outs_before == 0:
            return "HReadReq %d None" % r
        return "HDeliver %d %d" % (r, m["out"] % n_outs_before)
    if kind == "tomb":
        bad = m.get("kind", "") != "" or not (1 <= m["ptype"] <= 7)
        if bad:
            return "HTomb %d (TBad %d%%N)" % (r, m["by"])
        return "HTomb %d (TMsg %d%%N %d%%N %s%%Z %d%%N)" % (r, k, m["ptype"] - 1, zlit(step["at"]), m["by"])
    if kind == "baddelta":
        return "HBadDelta %d" % r
    if kind == "full":
        return "HFull %d [%s]" % (r, "; ".join("(%d%%N, %d%%nat, %s)" % (e["k"], e["from"], b(e["bad"] != "")) for e in m["entries"]))
    if kind == "batch":
        mod = lambda l: [i % n_outs_before for i in l] if n_outs_before else []
        return "HBatch %d %s [%s] [%s]" % (r, b(m["own"]), "; ".join("%d%%nat" % i for i in mod(m["deltas"])), "; ".join("%d%%nat" % i for i in mod(m["tombs"])))
    if kind == "readreq":
        if m.get("kind", "") != "":
            return "HReadReq %d None" % r
        return "HReadReq %d (Some %d%%N)" % (r, k)
    raise ValueError(kind)


def run(ctx):
    ctx.trusted += ["go/inpkg/actor C41 harness (capture actor, fake cluster/remoting that route coordinated reads to the other real replicas)",
                    "time.Now() readings of handleDelete/handlePrune are bracketed; the model is given the observed deletedAt"]
    ctx.assumptions += ["the replicator processes one message at a time (actor turn; C01)",
                        "time.Duration arithmetic does not saturate (|now - deletedAt| < 292 years)",
                        "tombstones are in-memory only: a restart (restoreFromSnapshot) forgets them — outside the property's quantifier, not modelled",
                        "handleGet as repaired by fixes/C41-get-tombstone.diff"]
    rng = ctx.rng
    hs = corpus()
    n = 900 if ctx.thorough else 90
    for i in range(n):
        h = gen_history(rng, 0, rng.choice([12, 25, 40]))
        h["kind"] = "random"
        hs.append(h)
    for i, h in enumerate(hs):
        h["id"] = i
    cu.write_progs(os.path.join(ctx.work, "c41_hist.jsonl"), hs)
    outp = os.path.join(ctx.work, "c41_out.jsonl")
    if os.path.exists(outp):
        os.remove(outp)
    rc, out = ctx.go_test("actor", "^TestVerifC41", ["zz_verif_C39_test.go", "zz_verif_C41_test.go"], timeout=1500)  # same file set as C39: one compiled test package
    outs = read_jsonl(outp)
    if rc != 0 or len(outs) != len(hs):
        ctx.tie_broken("go-harness actor.replicatorActor", out)
    by_id = {o["id"]: o for o in outs}

    nviol, hist, distinct = {}, {}, set()
    nsteps = 0
    ambiguous = 0

    def viol(sig, what, rep):
        nviol[sig] = nviol.get(sig, 0) + 1
        if nviol[sig] <= 2:
            ctx.violation(sig, what, rep)

    cases = []
    for h in hs:
        o = by_id.get(h["id"])
        if o is None:
            continue
        if o.get("panic"):
            viol("replicator:panic", "replicator panicked: %s" % o["panic"], {"history": h})
            continue
        last = {}            # replica -> last state tree
        tainted = set()      # (replica, key) exposed by a coordinated read while tombstoned
        n_outs = 0
        all_outs = []        # every captured outgoing message of the history (trees), in order
        expect = {}          # replica -> {key: deletedAt} tombstones the replica has RECEIVED (or created) and that have not expired
        items, wants, usable = [], [], True
        for i, (m, st) in enumerate(zip(h["msgs"], o["steps"])):
            nsteps += 1
            hist[m["m"]] = hist.get(m["m"], 0) + 1
            r = m["r"]
            prev = last.get(r, [[], [], [], []])
            state = st["state"]
            before, after = tombs_of(prev), tombs_of(state)
            store_keys = set(e[0] for e in state[0])
            ver_keys = set(e[0] for e in state[1])
            rep = {"history": {"ttl": h["ttl"], "nrepl": h["nrepl"], "msgs": h["msgs"][:i + 1]}, "step": i, "replica": r, "state_after": state}
            k = m.get("k")
            if m["m"] == "getc" and k in before and (st["resp"] != [3, []] or k in store_keys):
                tainted.add((r, k))
                viol(SIG_GET, "coordinated Get on replica %d for tombstoned key k%d returned %s and stored the value" % (r, k, st["resp"]), rep)
            # ---- a replica that has received a tombstone (whatever it held before, also when it never saw the key:
            # reordering, late joiner) records it, and keeps the key absent until the tombstone expires
            got = []                                   # (key, deletedAt) tombstones this step hands to replica r
            if m["m"] == "delete":
                got.append((k, None))
            elif m["m"] == "tomb" and m.get("kind", "") == "" and 1 <= m["ptype"] <= 7 and m["by"] != r:
                got.append((k, st["at"]))
            elif m["m"] == "deliver" and all_outs:
                w = all_outs[m["out"] % len(all_outs)]
                if w[0] == 2 and w[4] != r:
                    got.append((w[1], w[3]))
            elif m["m"] == "batch" and not m["own"] and all_outs:
                for ix in m["tombs"]:
                    w = all_outs[ix % len(all_outs)]
                    if w[0] == 2 and w[4] != r:
                        got.append((w[1], w[3]))
            exp_r = expect.setdefault(r, {})
            for gk, gat in got:
                if gk not in after:
                    viol("replicator:received-tombstone-not-recorded:" + m["m"],
                         "replica %d processed a tombstone for k%d (%s) but does not hold it afterwards%s" %
                         (r, gk, m["m"], "" if gk in set(e[0] for e in prev[0]) else " (it had never stored the key)"), rep)
                exp_r[gk] = after[gk][2] if gk in after else (gat if gat is not None else st["lo"])
            if m["m"] == "prune":
                for ek in [ek for ek, eat in exp_r.items() if st["hi"] - eat > h["ttl"]]:
                    del exp_r[ek]
            for ek in exp_r:
                if ek in store_keys and ek not in after and (r, ek) not in tainted:
                    viol("replicator:key-served-after-received-tombstone:" + m["m"],
                         "replica %d holds a value for k%d after %s although it received a tombstone for it that has not expired" % (r, ek, m["m"]), rep)
            for tk in after:
                if (tk in store_keys or tk in ver_keys) and (r, tk) not in tainted:
                    viol("replicator:tombstoned-key-in-store:" + m["m"], "after %s replica %d holds a value/version for tombstoned key k%d" % (m["m"], r, tk), rep)
            for tk in list(tainted):
                if tk[0] == r and tk[1] not in after:
                    tainted.discard(tk)
            # lifetime
            for tk, t in before.items():
                if tk not in after:
                    if m["m"] != "prune" or not (st["hi"] - t[2] > h["ttl"]):
                        viol("replicator:tombstone-removed-early:" + m["m"], "tombstone of k%d removed by %s although not expired" % (tk, m["m"]), rep)
            if m["m"] == "prune":
                for tk, t in before.items():
                    if st["lo"] - t[2] > h["ttl"] and tk in after:
                        viol("replicator:expired-tombstone-kept", "prune kept the expired tombstone of k%d" % tk, rep)
                if any((st["lo"] - t[2] > h["ttl"]) != (st["hi"] - t[2] > h["ttl"]) for t in before.values()):
                    usable = False
                    ambiguous += 1
            # exposure
            if m["m"] == "get" and k in before and st["resp"] != [3, []] and (r, k) not in tainted:
                viol("replicator:get-exposes-tombstoned-key", "Get on replica %d exposes tombstoned key k%d: %s" % (r, k, st["resp"]), rep)
            if m["m"] == "readreq" and m.get("kind", "") == "" and k in before and st["resp"] != [4, []] and (r, k) not in tainted:
                viol("replicator:read-request-exposes-tombstoned-key", "read request answered with a value for tombstoned key k%d" % k, rep)
            for ot in st["out"]:
                if ot[0] == 3:
                    for e in ot[1]:
                        if e[0] in after and (r, e[0]) not in tainted:
                            viol("replicator:full-state-contains-tombstoned-key", "full state sent by replica %d contains tombstoned key k%d" % (r, e[0]), rep)
            if m["m"] in ("update",) and k in before:
                if m.get("sender") and st["resp"] != [1]:
                    viol("replicator:update-on-tombstoned-key-no-reply", "update of a tombstoned key got no reply", rep)
                if st["out"]:
                    viol("replicator:update-on-tombstoned-key-published", "update of a tombstoned key published a delta", rep)
            if before:
                distinct.add(canon_hash([m, prev, state]))
            last[r] = state
            if usable:
                items.append(hmsg_coq(m, st, n_outs, h["ttl"]))
                wants.append([state, st["out"], st["resp"]])
            n_outs += len(st["out"])
            all_outs += st["out"]
        if items:
            cases.append((h, items, wants))

    # ---- model vs implementation
    t0 = time.time()
    budget = 40000 if ctx.thorough else 2200
    sel, tot = [], 0
    corp = [c for c in cases if c[0].get("kind", "").startswith("corpus")]
    rest = [c for c in cases if not c[0].get("kind", "").startswith("corpus")]
    random.Random(ctx.seed * 13 + 5).shuffle(rest)
    for c in corp + rest:
        if tot + len(c[1]) <= budget or c in corp:
            sel.append(c)
            tot += len(c[1])
    nch = 8 if ctx.thorough else 3
    chunks = [sel[i::nch] for i in range(nch)]
    mism, compared = [], 0

    def body_of(chunk):
        its = []
        for (h, items, wants) in chunk:
            its.append("(%d%%nat, %s%%Z, %d%%nat, [%s], [%s])" % (h["id"], zlit(h["ttl"]), h["nrepl"], "; ".join(items),
                                                                 "; ".join(cu.tree(w) for w in wants)))
        return """From stdpp Require Import gmap.
From Coq Require Import ZArith.
From GV Require Import C38.Model C38.Exec C41.Model C41.Exec.
Definition cases : list (nat * Z * nat * list hmsg * list tree) := [%s].
Definition bad := omap (fun c => match c with (i, ttl, n, p, w) => match check_hist ttl n p w with Some k => Some (i, k) | None => None end end) cases.
Definition summary := (length cases, length bad, firstn 5 bad).
Eval vm_compute in summary.
""" % ";\n ".join(its)

    import concurrent.futures as cf
    ok_model, mout = ctx.coq_build(["theories/C41/Exec.vo"])
    if not ok_model:
        ctx.tie_broken("C41/Exec.v (model) does not compile", mout)
    else:
        def ev(kk):
            return kk, ctx.coq_eval("cases_C41_%d" % kk, body_of(chunks[kk]), timeout=1500)
        with cf.ThreadPoolExecutor(max_workers=nch) as ex:
            for kk, (rc2, o2) in ex.map(ev, range(nch)):
                s = cu.parse_summary(o2)
                if rc2 != 0 or s is None:
                    ctx.tie_broken("model evaluation (cases_C41_%d.v did not evaluate)" % kk, o2)
                    continue
                compared += s[0]
                mism += s[2]
    if mism:
        hid, si = mism[0]
        h = [x for x in hs if x["id"] == hid][0]
        known_get = SIG_GET in nviol
        detail = {"mismatching_histories": len(mism), "first": {"ttl": h["ttl"], "nrepl": h["nrepl"], "msgs": h["msgs"][:si + 1], "step": si,
                  "implementation": by_id[hid]["steps"][si]}}
        if known_get and all(_is_getc_divergence(hs, by_id, a, b) for a, b in mism):
            ctx.notes.append("model (repaired handleGet) and implementation diverge only at coordinated reads of tombstoned keys: %s" % detail)
        else:
            ctx.tie_broken("model-vs-implementation replicator step", detail)
    ctx.log("model tie: %d histories (%d steps) in %.1fs, %d mismatches" % (compared, tot, time.time() - t0, len(mism)))

    if not ctx.coq_property():
        if not any(f.kind == "violation" and f.signature != SIG_GET for f in ctx.findings):
            ctx.proof_broken("Properties/C41.v (%s)" % getattr(ctx, "failed_at", "?"), getattr(ctx, "coq_log", ""))
        else:
            ctx.notes.append("Coq obligation broken at %s; concrete failing input reported" % getattr(ctx, "failed_at", "?"))

    ctx.coverage.update({
        "evaluations": nsteps,
        "distinct_nontrivial": len(distinct),
        "rule": "a step = (message, replica state before, replica state after); non-trivial = the replica holds at least one tombstone before the step; distinct by hash",
        "histories": len(hs), "message_histogram": hist, "ambiguous_clock_histories_truncated": ambiguous,
        "model_compared_histories": compared, "model_compared_steps": tot, "model_mismatches": len(mism),
        "oracle_violation_counts": nviol,
        "samples": [{"ttl": h["ttl"], "nrepl": h["nrepl"], "msgs": h["msgs"][:8]} for h in hs[1:4]],
        "theorems": ["C41_tombstoned_not_in_store", "C41_every_handler_preserves", "C41_update_ignored", "C41_delta_ignored", "C41_full_state_ignored",
                     "C41_not_exposed", "C41_tombstone_lifetime", "C41_prune_exact", "C41_get_unrepaired_refuted"],
    })


def _is_getc_divergence(hs, by_id, hid, si):
    """the first diverging step of the history is a coordinated Get on a key tombstoned at that replica"""
    h = [x for x in hs if x["id"] == hid][0]
    m = h["msgs"][si]
    if m["m"] != "getc":
        return False
    prev = None
    for j in range(si - 1, -1, -1):
        if h["msgs"][j]["r"] == m["r"]:
            prev = by_id[hid]["steps"][j]["state"]
            break
    return prev is not None and m["k"] in tombs_of(prev)


META = {
    "ready": True,
    "category": "proof",
    "technique": "Rocq proof (inductive invariant of the replicator step over all message histories) + actor-step conformance of the real replicator's Receive + property oracle",
    "text": "Invariant tombstoned => not in store/versions proved for every handler and every message history (any peers, any interleaving, duplication, loss); ignored updates/deltas/full-state entries; nothing exposed; tombstone lifetime exactly prune with now-deletedAt>ttl. The coordinated-read defect of handleGet is refuted in Coq, replayed on the real replicator and repaired by fixes/C41-get-tombstone.diff.",
    "design_ref": "DESIGN.md 7/C41",
    "level_note": "Trusted: Coq kernel, the hand-written model (tied by differential execution after every step), Go compiler, testify mocks used as fake cluster/remoting.",
}
