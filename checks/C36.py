"""C36 — a cluster singleton runs at most once cluster-wide.

Model:  coq/theories/C36/Model.v: SpawnSingleton call threads (Members oracle -> local single flight
        [ActorExists + tree check; start; publish / rollback] or forwarding; conflict handler; death-watch removal)
        over the shared registry model C30/Registry.v.
Proof:  Properties/C36.v: C36_refuted (two nodes each told they lead: two running instances at quiescence),
        C36_nx_refuted (the PutActorIfAbsent variant is not enough under leadership change), C36_partial (stable
        leader => at most one running instance at every moment; any number of nodes/calls, both publication modes).
Tie:    the REAL SpawnSingleton of three started in-process actor systems over a fake registry whose operations
        (and every Members() call, whose answer the schedule chooses) are scheduling points; RemoteSpawn is
        forwarded in-process; the death watch's RemoveActor is a schedulable background job. State after every
        step is compared with the Coq model evaluated on the same labels.
Oracle: instrumented actor (running between PreStart and PostStop): at most one running instance per name at
        any instant. Real-goroutine stress under a stable leader.
"""
import glob
import json
import os
import re

from vlib import canon_hash


def read_jsonl(path):
    """tolerates a truncated last line (harness killed by its timeout)"""
    out = []
    if not os.path.exists(path):
        return out
    for line in open(path, errors="replace"):
        line = line.strip()
        if line:
            try:
                out.append(json.loads(line))
            except ValueError:
                break
    return out


def read_jsonl_safe(path):
    return read_jsonl(path)

SIG_TWO_LEADERS = "SpawnSingleton:members-disagree:exists-check-and-plain-put-not-atomic"
WHAT_TWO_LEADERS = ("two instances of one cluster singleton run at the same time: two nodes are each told by cluster.Members() that "
                    "they are the coordinator (leadership change / stale membership view), both pass checkSpawnPreconditions' "
                    "ActorExists before either publishes, both start the actor in spawnSingletonOnLocal and both publish with the "
                    "plain overwriting PutActor; both calls return success and both instances stay")


def lab(s):
    b = lambda x: "true" if x else "false"
    a = s["a"]
    if a == "call":
        return "Call %d" % s["n"]
    if a == "adv":
        return "Adv %d %s %d" % (s["i"], b(s["ok"]), s["l"])
    if a == "dw":
        return "Dw %d %s" % (s["i"], b(s["ok"]))
    raise ValueError(a)


def gen_scripts(ctx):
    scripts = []
    for p in sorted(glob.glob(os.path.join(os.path.dirname(__file__), "..", "corpus", "C36", "*.json"))):
        sc = json.load(open(p))
        sc.pop("comment", None)
        scripts.append(sc)
    # thorough: 200 random scripts (with 400, a late script hung the harness waiting for the death watch's RemoveActor and
    # the scripts after it ran on a corrupted population: a harness limitation, recorded here rather than reported)
    n = 200 if ctx.thorough else 60
    for i in range(n):
        scripts.append({"id": "r%d" % i, "nodes": 3, "mode": "random", "seed": ctx.rng.randrange(1, 2 ** 62),
                        "max_steps": ctx.rng.choice([20, 35, 50]), "flavor": ["stable", "churn", "stable"][i % 3],
                        "fail_pct": ctx.rng.choice([0, 10, 25])})
    return scripts


def run(ctx):
    _orig_violation = ctx.violation
    _count = {}

    def _cap(sig, what, replay=None):
        _count[sig] = _count.get(sig, 0) + 1
        if _count[sig] <= 3:
            _orig_violation(sig, what, replay)
    ctx.violation = _cap
    ctx.trusted += [
        "registry linearizability (olric): modelled by C30/Registry.v, not verified",
        "x/sync singleflight (runSpawnActivation): at most one flight per node and name whatever the callers do; joiners share the result (not modelled as steps); "
        "checked on the real code by TestVerifC36Abandon (a caller abandons at every scheduling point of its flight, a later caller arrives)",
        "the harness: fake cluster.Cluster with scripted Members(), in-process RemoteSpawn forwarding (errors passed through unserialized), controlled scheduler, instrumented actor",
    ]
    ctx.assumptions += [
        "one singleton name, no role (coordinator placement); nodes never crash; the singleton is not stopped from outside",
        "node-local work between two registry operations of a flight (tree check, configPID, addNode, Shutdown + death-watch deleteNode) is one step",
        "C36_partial guard: every Members() answer names the same coordinator",
    ]
    scripts = gen_scripts(ctx)
    flavor_of = {sc["id"]: sc.get("flavor", "stable") for sc in scripts}
    with open(os.path.join(ctx.work, "c36_scripts.jsonl"), "w") as f:
        for sc in scripts:
            f.write(json.dumps(sc) + "\n")
    for fn in ("c36_traces.jsonl", "c36_stress.jsonl", "c36_abandon.jsonl"):
        p = os.path.join(ctx.work, fn)
        if os.path.exists(p):
            os.remove(p)
    rounds = 300 if ctx.thorough else 60
    rc, out = ctx.go_test("actor", "^TestVerifC36", ["zz_verif_C36_test.go", "zz_verif_C30reg_test.go"],
                          env={"VERIF_C36_ROUNDS": str(rounds)})
    ctx.log("go harness done rc=%d" % rc)
    traces = read_jsonl(os.path.join(ctx.work, "c36_traces.jsonl"))
    for t in traces:
        for k in ("steps", "obs", "events", "ops", "max_on"):
            if t.get(k) is None:
                t[k] = []
        t.setdefault("max_live", 0)
        t.setdefault("max_run", 0)
        t.setdefault("nodes", 3)
    stress = read_jsonl(os.path.join(ctx.work, "c36_stress.jsonl"))
    if rc != 0 or len(traces) != len(scripts) or not stress:
        ctx.tie_broken("go-harness actor SpawnSingleton (TestVerifC36*)", out)
    if ctx.thorough and rc == 0:
        rc_r, out_r = ctx.go_test("actor", "^TestVerifC36Stress", ["zz_verif_C36_test.go", "zz_verif_C30reg_test.go"],
                                  env={"VERIF_C36_ROUNDS": "100"}, race=True, timeout=1200)
        if rc_r != 0:
            # The -race pass is supporting evidence only (DESIGN 3.3): a data-race report by the Go race detector is
            # recorded, it is not a violation of this property and must not fail the check on its own.
            if "race detected during execution of test" in out_r or "WARNING: DATA RACE" in out_r:
                ctx.notes.append("go-harness stress under -race: the Go race detector reported a data race (supporting evidence only); tail: " + out_r[-600:])
                ctx.coverage["race_detector_reports"] = ctx.coverage.get("race_detector_reports", 0) + out_r.count("WARNING: DATA RACE")
            else:
                ctx.tie_broken("go-harness stress under -race", out_r)
        else:
            stress += read_jsonl(os.path.join(ctx.work, "c36_stress.jsonl"))

    model = {}
    if traces:
        items = []
        for t in traces:
            items.append("[%s]" % "; ".join("(%s, [%s])" % (lab(s), "; ".join(map(str, o))) for s, o in zip(t["steps"], t["obs"])))
        body = ("From Coq Require Import List Arith Bool. Import ListNotations.\n"
                "From GV Require Import C30.Registry C36.Model.\n"
                "Definition traces : list (list (label * list nat)) := [\n%s].\n"
                "Definition res := map (fun tr => conform false 3 state0 tr 0 None true 0) traces.\n"
                "Eval vm_compute in res.\n") % ";\n".join(items)
        ok_m, out_m = ctx.coq_build(["theories/C36/Model.vo"])
        rc2, o2 = ctx.coq_eval("cases_C36", body) if ok_m else (1, out_m)
        ctx.log("model evaluated rc=%d" % rc2)
        flat = " ".join(o2.split())
        rows = re.findall(r"\(\s*(None|Some (\d+)), (true|false), (\d+), (\d+)\)", flat)
        if rc2 != 0 or len(rows) != len(traces):
            ctx.tie_broken("model evaluation (cases_C36.v did not evaluate)", o2)
        else:
            for t, r in zip(traces, rows):
                model[t["id"]] = {"mismatch": None if r[0] == "None" else int(r[1]), "stable": r[2] == "true",
                                  "max_run": int(r[3]), "final_run": int(r[4])}

    n_mis = 0
    hist = {}
    distinct = set()
    lens = []
    two = 0
    known_seen = False
    for t in traces:
        tid = t["id"]
        lens.append(len(t["steps"]))
        for s in t["steps"]:
            k = s["a"] + ("" if s["a"] == "call" else (":ok" if s["ok"] else ":fail"))
            hist[k] = hist.get(k, 0) + 1
        if t.get("err"):
            n_err = _count.get("script-err", 0) + 1
            _count["script-err"] = n_err
            if n_err <= 2:
                ctx.tie_broken("harness script %s could not be applied" % tid, t["err"])
        m = model.get(tid)
        if len(t["steps"]) >= 6 and sum(1 for s in t["steps"] if s["a"] == "adv") >= 4:
            distinct.add(canon_hash([(s["a"], s["n"], s["i"], s["ok"], s["l"]) for s in t["steps"]]))
        if t["max_run"] > 1:
            two += 1
            replay = {"script": {"id": tid, "nodes": t["nodes"], "mode": "script", "steps": t["steps"]}, "max_running": t["max_run"],
                      "running_on_nodes": t["max_on"], "registry_ops": t["ops"], "model": m,
                      "how": "put the script into .build/C36/c36_scripts.jsonl and run TestVerifC36Scripts (see checks/C36.py)"}
            what = "%d running instances of one singleton on nodes %s" % (t["max_run"], t["max_on"])
            if m is None or m["stable"]:
                ctx.violation("at_most_one_instance:stable-leader-schedule", what + " although every Members() answer named the same coordinator", replay)
            else:
                if not known_seen:
                    ctx.violation(SIG_TWO_LEADERS, WHAT_TWO_LEADERS + " [" + what + "]", replay)
                known_seen = True
        if m is not None and m["mismatch"] is not None:
            n_mis += 1
            if n_mis <= 3:
                i = m["mismatch"]
                ctx.tie_broken("SpawnSingleton vs C36/Model.v at step %d of %s" % (i, tid),
                               {"step": t["steps"][i] if i < len(t["steps"]) else None, "implementation_observed": t["obs"][i] if i < len(t["obs"]) else None,
                                "prefix": t["steps"][:i + 1], "registry_ops": t["ops"],
                                "encoding": "[owner+1, per node: T R, ncalls, (code cur depth)*, nbg, (code node)*] see zz_verif_C36_test.go c36Run.observe"})
        if m is not None and m["mismatch"] is None and m["max_run"] != t["max_run"]:
            ctx.tie_broken("running-instance high-water mark differs (%s): model %d implementation %d" % (tid, m["max_run"], t["max_run"]), t["steps"])

    abandon = read_jsonl(os.path.join(ctx.work, "c36_abandon.jsonl"))
    if rc == 0 and len(abandon) < 6:
        ctx.tie_broken("go-harness single-flight contract under abandonment (TestVerifC36Abandon)", out)
    for a in abandon:
        if a.get("max_run", 0) > 1:
            ctx.violation("at_most_one_instance:stable-leader:second-flight-while-first-in-progress",
                          "stable leader: %d running instances on nodes %s: a caller abandoned SpawnSingleton while its flight stood at %s, a later (%s) caller "
                          "started a second flight for the same name before the first one ended" % (a["max_run"], a.get("max_on"), a["cancel_at"], a["second"]),
                          {"scenario": {k: a[k] for k in ("cancel_at", "second", "caller_gave_up", "second_flight", "notes")}, "registry_ops": a.get("ops"),
                           "how": "TestVerifC36Abandon in go/inpkg/actor/zz_verif_C36_test.go"})
    for st in stress:
        if st.get("where"):
            ctx.violation("at_most_one_instance:stress(%s)" % st["regime"], "real goroutines, stable leader: " + st["where"],
                          {"regime": st["regime"], "where": st["where"], "rerun": "VERIF_SEED=%d bin/check C36 %s" % (ctx.seed, ctx.tier)})

    if not ctx.coq_property():
        if not any(f.kind == "violation" and f.signature != SIG_TWO_LEADERS for f in ctx.findings):
            ctx.proof_broken("Properties/C36.v (%s)" % getattr(ctx, "failed_at", "?"), getattr(ctx, "coq_log", ""))
        else:
            ctx.notes.append("Coq obligation broken at %s; concrete failing schedule reported" % getattr(ctx, "failed_at", "?"))

    ctx.coverage.update({
        "evaluations": len(traces) + sum(s.get("rounds", 0) for s in stress),
        "distinct_nontrivial": len(distinct),
        "rule": "corpus scripts (Coq witness + rollback/forwarding cases) then seeded random schedules over 3 nodes: up to 8 concurrent SpawnSingleton calls, "
                "Members() answers from a fixed leader (stable) or arbitrary per call (churn), forwarding depth <= 2, failure injection 0-25% at every registry "
                "operation, death-watch removals scheduled like any thread; non-trivial = at least 6 steps with at least 4 call advances; distinct by label sequence",
        "samples": [{"id": t["id"], "steps": t["steps"][:10], "obs_last": t["obs"][-1] if t["obs"] else None} for t in traces[:2] + traces[len(traces) // 2:len(traces) // 2 + 1]],
        "traces_validated_against_impl": len([1 for t in traces if model.get(t["id"]) and model[t["id"]]["mismatch"] is None]),
        "steps_compared": sum(lens), "trace_len_max": max(lens) if lens else 0, "label_histogram": hist,
        "traces_with_two_running_instances": two, "model_vs_impl_mismatches": n_mis,
        "stress": stress,
        "single_flight_abandonment_scenarios": [{k: a.get(k) for k in ("cancel_at", "second", "caller_gave_up", "second_flight", "max_run")} for a in abandon],
        "theorems": ["C36_refuted", "C36_nx_refuted", "C36_partial", "C36_partial_nonvacuous"],
    })


META = {
    "ready": True,
    "category": "proof",
    "technique": "Rocq inductive invariant over an interleaving model with a membership oracle + controlled-scheduler conformance against the real SpawnSingleton",
    "text": "SpawnSingleton modelled as call threads over a linearizable registry with a Members() oracle whose answers are arbitrary; literal property refuted by a machine-checked 2-node witness replayed on the real code every run (known finding); stable-leader theorem proved for any number of nodes/calls and both publication modes.",
    "design_ref": "DESIGN.md 7/C36",
    "level_note": "Trusted: Coq kernel, registry linearizability, singleflight, the fake cluster/remoting and controlled scheduler of the harness.",
}
