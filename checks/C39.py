"""C39 — replicas that apply the same updates converge.

Proof : Properties/C39.v — any join converges under any order/duplication of arrivals (generic, instantiated for the
        CRDT cores), the replicator's store-or-merge rule, GCounter delta shipping for all histories (guard: no uint64
        overflow), refutation witnesses for ORSet delta shipping.
Tie   : (S) replication programs on the REAL crdt package: originators perform local ops with ship points
        (Delta; ResetDelta) and mutual full-state syncs; receivers fold the deltas in ship order, in a shuffled order with
        duplicates, and mixed with full states; every op's canonical dump is compared with the Coq model (vm_compute).
        (A) the real replicator actor's handlers (handleUpdate/handleDelta/handleFullState) in-package, 3 replicas,
        published deltas re-delivered in arbitrary order with duplication.
Oracle: every receiver's observable value equals the value of (fresh ⊔ originators' full states).
"""
import os
import random
import time

from vlib import read_jsonl, canon_hash
import crdt_util as cu

SIG_ORSET_A = "ORSet.Delta:clock-covers-dots-not-in-delta"
SIG_ORSET_B = "ORSet.Delta:removed-dot-shipped-as-added"
SIG_ORMAP = "ORMap.Merge:order-dependent:value-of-removed-key-rejoins"
SIG_LWW = "LWWRegister.Merge:equal-timestamp-and-node-different-value"
TNAME = {1: "GCounter", 2: "PNCounter", 3: "Flag", 4: "LWWRegister", 5: "MVRegister", 6: "ORSet", 7: "ORMap"}

ORIG, RECV_ORDER, RECV_SHUF, DELTA0, NDELTA, VS0, TMP, EXP, RECV_MIX = [0, 1], 2, 3, 4, 6, 10, 12, 13, 14


def scenario(t, rng, nops, lww_unique=True, small=True):
    ops = [{"o": "new", "d": i, "t": t} for i in (0, 1, RECV_ORDER, RECV_SHUF, RECV_MIX, EXP)]
    inner = None
    if t == "m":
        inner = rng.choice(["g", "g", "s", "f"])
        for k in (VS0, VS0 + 1):
            ops.append({"o": "new", "d": k, "t": inner})
    ships = []          # (delta slot, op index of the delta op, originator)
    last_ts = {}
    nd = 0

    def ship(o):
        nonlocal nd
        slot = DELTA0 + nd
        nd += 1
        ships.append((slot, len(ops), o))
        ops.append({"o": "delta", "d": slot, "s": o})
        ops.append({"o": "reset", "s": o})

    # one "update" = what replicator.handleUpdate does: apply 1..3 local operations, then Delta(); ResetDelta().
    # Full-state syncs between the originators happen only between updates (the replicator never merges
    # into a value with an unshipped delta).
    def local(o, n):
        if t == "l":
            # a node's clock readings strictly increase (stated assumption); both nodes use overlapping ranges
            # ... and, half of the time, this write uses exactly the timestamp another node has already used
            # (same tick on two replicas): the node-id tie-break decides, identically everywhere
            ts = last_ts.get(n, rng.choice([-3, 0, 4])) + rng.choice([1, 1, 2, 5])
            others = [v for m_, v in last_ts.items() if m_ != n and v >= ts - 1 and v > last_ts.get(n, -10 ** 9)]
            if others and rng.random() < 0.6:
                ts = rng.choice(others)
            last_ts[n] = ts
            ops.append({"o": "lset", "d": o, "s": o, "n": n, "e": rng.randrange(1, cu.NVALS), "ts": ts})
        elif t == "m":
            k = rng.choice([1, 2])
            y = rng.random()
            if y < 0.5:
                vs = VS0 + rng.randrange(2)
                if inner == "g":
                    ops.append({"o": "inc", "d": vs, "s": vs, "n": n, "v": rng.choice([1, 2, 5])})
                elif inner == "s":
                    ops.append({"o": rng.choice(["add", "add", "rem"]), "d": vs, "s": vs, "n": n, "e": rng.choice([1, 2])})
                else:
                    ops.append({"o": "enable", "d": vs, "s": vs})
                ops.append({"o": "mset", "d": o, "s": o, "n": n, "e": k, "a": vs})
            elif y < 0.75:
                ops.append({"o": "mget", "d": TMP, "s": o, "e": k})
                if inner == "g":
                    ops.append({"o": "inc", "d": TMP, "s": TMP, "n": n, "v": rng.choice([1, 3])})
                ops.append({"o": "mset", "d": o, "s": o, "n": n, "e": k, "a": TMP})
            else:
                ops.append({"o": "mrem", "d": o, "s": o, "e": k})
        elif t in ("g", "pn"):
            ops.append({"o": rng.choice(["inc", "inc", "dec"]) if t == "pn" else "inc", "d": o, "s": o, "n": n,
                        "v": rng.choice([0, 1, 2, 3, 7, 2 ** 32, 2 ** 40])})
        else:
            ops.append(dict(rng.choice(cu.local_ops(t, o, rng, small=small))))

    for _ in range(nops):
        o = rng.choice(ORIG)
        n = cu.REPL_NODE[o]
        x = rng.random()
        if x < 0.75 and nd < NDELTA:
            for _k in range(rng.choice([1, 1, 1, 2, 3])):
                local(o, n)
            ship(o)
        elif x < 0.95:
            ops.append({"o": "merge", "d": o, "a": o, "b": 1 - o})   # anti-entropy between the originators
    if nd == 0:
        local(0, cu.REPL_NODE[0])
        ship(0)
    chk = {"deltas": [i for (_, i, _) in ships], "orig": ORIG}
    ops.append({"o": "merge", "d": EXP, "a": EXP, "b": 0})
    ops.append({"o": "merge", "d": EXP, "a": EXP, "b": 1})
    chk["exp"] = len(ops) - 1
    order = [s for (s, _, _) in ships]
    chk["recv"] = []
    ops.append({"o": "fold", "d": RECV_ORDER, "a": RECV_ORDER, "v": cu.fold_v(order)})
    chk["recv"].append({"i": len(ops) - 1, "kind": "deltas-in-ship-order", "slots": order})
    sh = order + [rng.choice(order) for _ in range(rng.randrange(0, 4))]
    rng.shuffle(sh)
    ops.append({"o": "fold", "d": RECV_SHUF, "a": RECV_SHUF, "v": cu.fold_v(sh)})
    chk["recv"].append({"i": len(ops) - 1, "kind": "deltas-shuffled-duplicated", "slots": sh})
    mix = [s for s in order if rng.random() < 0.5] + [0, 1] + [s for s in order if rng.random() < 0.3]
    rng.shuffle(mix)
    ops.append({"o": "fold", "d": RECV_MIX, "a": RECV_MIX, "v": cu.fold_v(mix)})
    chk["recv"].append({"i": len(ops) - 1, "kind": "deltas-and-full-states", "slots": mix})
    return {"t": t, "kind": "scenario-" + t, "ops": ops, "chk": chk}


def corpus():
    P = []
    # the confirmed ORSet witness: A.Add x; Delta; ResetDelta; A.Add y; Delta; B merges both in order => B={y}
    ops = [{"o": "new", "d": i, "t": "s"} for i in (0, 1, 2, 3, 14, 13)]
    ops += [{"o": "add", "d": 0, "s": 0, "n": 1, "e": 1}, {"o": "delta", "d": 4, "s": 0}, {"o": "reset", "s": 0},
            {"o": "add", "d": 0, "s": 0, "n": 1, "e": 2}, {"o": "delta", "d": 5, "s": 0}, {"o": "reset", "s": 0},
            {"o": "merge", "d": 13, "a": 13, "b": 0}, {"o": "fold", "d": 2, "a": 2, "v": cu.fold_v([4, 5])}]
    P.append({"t": "s", "kind": "corpus-orset-delta-in-order", "ops": ops,
              "chk": {"deltas": [7, 10], "orig": [0], "exp": 12, "recv": [{"i": 13, "kind": "deltas-in-ship-order", "slots": [4, 5]}]}})
    # add then remove between two ships: the delta still lists the dot as added
    ops = [{"o": "new", "d": i, "t": "s"} for i in (0, 1, 2, 3, 14, 13)]
    ops += [{"o": "add", "d": 0, "s": 0, "n": 1, "e": 1}, {"o": "rem", "d": 0, "s": 0, "e": 1}, {"o": "delta", "d": 4, "s": 0}, {"o": "reset", "s": 0},
            {"o": "merge", "d": 13, "a": 13, "b": 0}, {"o": "fold", "d": 2, "a": 2, "v": cu.fold_v([4])}]
    P.append({"t": "s", "kind": "corpus-orset-delta-add-remove", "ops": ops,
              "chk": {"deltas": [8], "orig": [0], "exp": 10, "recv": [{"i": 11, "kind": "deltas-in-ship-order", "slots": [4]}]}})
    # LWW: two nodes write different values with exactly the same timestamp; receivers in both orders and a late third one
    ops = [{"o": "new", "d": i, "t": "l"} for i in (0, 1, 2, 3, 14, 13)]
    ops += [{"o": "lset", "d": 0, "s": 0, "n": 1, "e": 1, "ts": 7}, {"o": "delta", "d": 4, "s": 0}, {"o": "reset", "s": 0},
            {"o": "lset", "d": 1, "s": 1, "n": 4, "e": 2, "ts": 7}, {"o": "delta", "d": 5, "s": 1}, {"o": "reset", "s": 1},
            {"o": "merge", "d": 0, "a": 0, "b": 5}, {"o": "merge", "d": 1, "a": 1, "b": 4},
            {"o": "merge", "d": 13, "a": 13, "b": 0}, {"o": "merge", "d": 13, "a": 13, "b": 1},
            {"o": "fold", "d": 2, "a": 2, "v": cu.fold_v([4, 5])}, {"o": "fold", "d": 3, "a": 3, "v": cu.fold_v([5, 4, 5])},
            {"o": "fold", "d": 14, "a": 14, "v": cu.fold_v([1, 0])}, {"o": "fold", "d": 12, "a": 0, "v": cu.fold_v([])}, {"o": "fold", "d": 11, "a": 1, "v": cu.fold_v([])}]
    P.append({"t": "l", "kind": "corpus-lww-equal-timestamp-two-nodes", "ops": ops,
              "chk": {"deltas": [7, 10], "orig": [0, 1], "exp": 15, "recv": [{"i": 16, "kind": "deltas-in-ship-order", "slots": [4, 5]},
                      {"i": 17, "kind": "deltas-shuffled-duplicated", "slots": [5, 4, 5]}, {"i": 18, "kind": "deltas-and-full-states", "slots": [1, 0]},
                      {"i": 19, "kind": "originator-after-exchange", "slots": []}, {"i": 20, "kind": "originator-after-exchange", "slots": []}]}})
    # GCounter uint64 wrap between two ships (tie only: outside the stated no-overflow assumption)
    ops = [{"o": "new", "d": i, "t": "g"} for i in (0, 2, 13)]
    ops += [{"o": "inc", "d": 0, "s": 0, "n": 1, "v": 2 ** 63}, {"o": "delta", "d": 4, "s": 0}, {"o": "reset", "s": 0},
            {"o": "inc", "d": 0, "s": 0, "n": 1, "v": 2 ** 63}, {"o": "delta", "d": 5, "s": 0}, {"o": "reset", "s": 0},
            {"o": "merge", "d": 13, "a": 13, "b": 0}, {"o": "fold", "d": 2, "a": 2, "v": cu.fold_v([4, 5])}]
    P.append({"t": "g", "kind": "corpus-gcounter-wrap-tie-only", "ops": ops, "chk": None})
    return P


def dots_of(core):
    return set(tuple(x) for x in core[0])


def classify_orset(p, o, rc):
    """narrow classes of the known ORSet delta defect, computed from the delivered deltas themselves"""
    chk = p["chk"]
    exp = o["res"][chk["exp"]]
    exp_dots = dots_of(exp[2])
    slot_dump = {}
    for i in chk["deltas"]:
        slot_dump[p["ops"][i]["d"]] = o["res"][i]
    for s in chk["orig"]:
        slot_dump[s] = cu_last_dump(p, o, s, chk["exp"])
    delivered = [slot_dump.get(s) for s in rc["slots"]]
    delivered = [d for d in delivered if d]
    all_dots = set()
    for d in delivered:
        all_dots |= dots_of(d[2])
    a = b = False
    for d in delivered:
        clock = dict((n, c) for n, c in d[2][1])
        mine = dots_of(d[2])
        for t in all_dots - mine:
            if t in exp_dots and t[2] <= clock.get(t[1], 0):
                a = True
        for t in mine:
            if t not in exp_dots:
                b = True
    return a, b


def cu_last_dump(p, o, slot, upto):
    last = None
    for i, op in enumerate(p["ops"][:upto + 1]):
        if op["o"] == "laws":
            continue
        d = op.get("s", 0) if op["o"] == "reset" else op.get("d", 0)
        if d == slot:
            last = o["res"][i]
    return last


def classify_ormap(p, o, rc, got, exp):
    if got[2][0] != exp[2][0]:
        return False
    chk = p["chk"]
    final_dots = set(tuple(x) for x in exp[2][0][0])
    gv, ev = dict((k, v) for k, v in got[2][1]), dict((k, v) for k, v in exp[2][1])
    diff = [k for k in set(gv) | set(ev) if gv.get(k) != ev.get(k)]
    if not diff:
        return False
    holders = []
    for i in chk["deltas"]:
        if o["res"][i]:
            holders.append(o["res"][i])
    for s in chk["orig"]:
        holders.append(cu_last_dump(p, o, s, chk["exp"]))
    for k in diff:
        ok = False
        for x in holders:
            has_val = any(kk == k for kk, _ in x[2][1])
            own = [tuple(d) for d in x[2][0][0] if d[0] == k]
            if has_val and not any(d in final_dots for d in own):
                ok = True
        if not ok:
            return False
    return True


def run(ctx):
    ctx.trusted += ["go/inpkg/crdt slot machine + canonical dump (harness)", "lib/crdt_util.py program generator and Coq-term printer"]
    ctx.assumptions += ["each replica uses its own node id", "no node's counter total reaches 2^64 (C39_gcounter_delta_wrap_refuted shows what happens otherwise)",
                        "every originator ships (Delta; ResetDelta) after its last local operation; every shipped delta is delivered at least once",
                        "LWWRegister: the timestamps a node passes to Set strictly increase (Set overwrites unconditionally, a clock going backwards makes the writer itself regress)"]
    rng = ctx.rng
    progs = corpus()
    n = 1500 if ctx.thorough else 260
    types = ["g", "pn", "f", "l", "mv", "s", "m", "l", "s", "g", "mv", "m", "l"]
    for i in range(n):
        t = types[i % len(types)]
        progs.append(scenario(t, rng, rng.choice([3, 6, 10]), lww_unique=True, small=(rng.random() < 0.7)))
    for i, p in enumerate(progs):
        p["id"] = i
    cu.write_progs(os.path.join(ctx.work, "c39_prog.jsonl"), progs)
    outp = os.path.join(ctx.work, "c39_out.jsonl")
    if os.path.exists(outp):
        os.remove(outp)
    rc, out = ctx.go_test("crdt", "^TestVerifC39", ["zz_verif_C39_test.go", "zz_verif_crdtvm_test.go"])
    outs = read_jsonl(outp)
    if rc != 0 or len(outs) != len(progs):
        ctx.tie_broken("go-harness crdt slot machine (C39)", out)
    by_id = {o["id"]: o for o in outs}

    nviol, checked, distinct, kinds = {}, 0, set(), {}

    def viol(sig, what, rep):
        nviol[sig] = nviol.get(sig, 0) + 1
        if nviol[sig] <= 2:
            ctx.violation(sig, what, rep)

    for p in progs:
        kinds[p["kind"]] = kinds.get(p["kind"], 0) + 1
        o = by_id.get(p["id"])
        if o is None:
            continue
        if o.get("panic"):
            viol("crdt:panic", "crdt operation panicked: %s" % o["panic"], {"program": {"ops": p["ops"]}})
            continue
        if o["impure"]:
            i = o["impure"][0]
            viol("crdt:%s:modifies-input" % p["ops"][i]["o"], "operation %s modified one of its inputs" % p["ops"][i]["o"], {"program": {"ops": p["ops"][:i + 1]}})
        chk = p.get("chk")
        if not chk:
            continue
        exp = o["res"][chk["exp"]]
        tag = exp[0]
        name = TNAME.get(tag, "?")
        for rcv in chk["recv"]:
            got = o["res"][rcv["i"]]
            checked += 1
            if any(o["res"][i] for i in chk["deltas"]):
                distinct.add(canon_hash([p["t"], exp[2], [o["res"][i][2] if o["res"][i] else None for i in chk["deltas"]], rcv["slots"]]))
            if got[1] == exp[1]:
                continue
            sig = "%s:replication-divergence:%s" % (name, rcv["kind"])
            if tag == 6:
                a, b = classify_orset(p, o, rcv)
                if a:
                    sig = SIG_ORSET_A
                elif b:
                    sig = SIG_ORSET_B
            elif tag == 7 and classify_ormap(p, o, rcv, got, exp):
                sig = SIG_ORMAP
            viol(sig, "%s: receiver (%s) exposes %s, merge of the originators' full states exposes %s" % (name, rcv["kind"], got[1], exp[1]),
                 {"type": name, "program": {"ops": p["ops"][:rcv["i"] + 1]}, "receiver_op_index": rcv["i"], "expected_op_index": chk["exp"]})

    # ---- model vs implementation
    t0 = time.time()
    budget = 50000 if ctx.thorough else 3500
    sample = [p for p in progs if p["kind"].startswith("corpus")]
    rest = [p for p in progs if not p["kind"].startswith("corpus") and not by_id.get(p["id"], {}).get("panic")]
    random.Random(ctx.seed * 31 + 7).shuffle(rest)
    tot = sum(len(p["ops"]) for p in sample)
    for p in rest:
        if tot + len(p["ops"]) <= budget:
            sample.append(p)
            tot += len(p["ops"])
    nch = 8 if ctx.thorough else 3
    chunks = [sample[i::nch] for i in range(nch)]
    mism, compared = [], 0
    import concurrent.futures as cf

    def ev(k):
        body, n_ = cu.coq_cases(chunks[k], outs)
        rc2, o2 = ctx.coq_eval("cases_C39_%d" % k, body, timeout=1500)
        return k, rc2, o2

    ok_model, mout = ctx.coq_build(["theories/C38/Exec.vo"])
    if not ok_model:
        ctx.tie_broken("C38/Exec.v (model) does not compile", mout)
    else:
        with cf.ThreadPoolExecutor(max_workers=nch) as ex:
            for k, rc2, o2 in ex.map(ev, range(nch)):
                s = cu.parse_summary(o2)
                if rc2 != 0 or s is None:
                    ctx.tie_broken("model evaluation (cases_C39_%d.v did not evaluate)" % k, o2)
                    continue
                compared += s[0]
                mism += s[2]
    if mism:
        pid, opi = mism[0]
        p = [x for x in progs if x["id"] == pid][0]
        ctx.tie_broken("model-vs-implementation crdt dump (C39)", {"mismatching_programs": len(mism), "first": {"ops": p["ops"][:opi + 1], "op_index": opi,
                       "implementation": by_id[pid]["res"][opi]}})
    ctx.log("model tie: %d programs (%d ops) in %.1fs, %d mismatches" % (compared, tot, time.time() - t0, len(mism)))

    repl_cov = run_replicator_level(ctx, viol)

    if not ctx.coq_property():
        known = (SIG_ORSET_A, SIG_ORSET_B, SIG_ORMAP, SIG_LWW)
        if not any(f.kind == "violation" and f.signature not in known for f in ctx.findings):
            ctx.proof_broken("Properties/C39.v (%s)" % getattr(ctx, "failed_at", "?"), getattr(ctx, "coq_log", ""))
        else:
            ctx.notes.append("Coq obligation broken at %s; concrete failing input reported" % getattr(ctx, "failed_at", "?"))

    ctx.coverage.update({
        "evaluations": sum(len(p["ops"]) for p in progs) + repl_cov.get("steps", 0),
        "distinct_nontrivial": len(distinct) + repl_cov.get("distinct", 0),
        "rule": "a receiver run = (type, originators' final raw state, raw states of the shipped deltas, delivery order); non-trivial = at least one non-nil delta shipped; distinct by hash",
        "programs": len(progs), "program_kinds": kinds, "receiver_runs_checked": checked,
        "model_compared_programs": compared, "model_compared_ops": tot, "model_mismatches": len(mism),
        "oracle_violation_counts": nviol, "replicator_level": repl_cov,
        "samples": [{"ops": p["ops"][:14], "chk": p.get("chk")} for p in progs[3:5]],
        "theorems": THEOREMS,
    })


def run_replicator_level(ctx, viol):
    """(A) real replicator handlers: lib/crdt_repl_util.py"""
    import crdt_repl_util
    return crdt_repl_util.run(ctx, viol)


THEOREMS = ["C39_any_join_converges", "C39_any_join_is_join_of_sent", "C39_replicator_store_converges", "C39_gcounter_full_state",
            "C39_gcounter_delta_partial", "C39_pncounter_delta_partial", "C39_gcounter_delta_wrap_refuted", "C39_orset_full_state_partial",
            "C39_orset_delta_refuted", "C39_orset_delta_add_remove_refuted", "C39_delta_is_full_state", "C39_mvregister_converges",
            "C39_lww_converges", "C39_ormap_order_refuted"]

META = {
    "ready": True,
    "category": "proof",
    "technique": "Rocq proof (generic join convergence + per-type delta theorems/refutations) over the executable crdt model + differential replication programs + convergence oracle",
    "text": "Convergence under any order/duplication proved for every join and instantiated for the CRDT cores and for the replicator's store-or-merge rule; GCounter delta shipping proved for all histories (no-overflow guard); ORSet delta shipping refuted (two witnesses replayed on the real code) with the full-state partial theorem.",
    "design_ref": "DESIGN.md 7/C39",
    "level_note": "Trusted: Coq kernel, the hand-written model (tied by differential execution after every op), Go compiler.",
}
