"""C42 — reliable point-to-point delivery is ordered and gap-free under message faults.

Proof:  Properties/C42.v over C42/Model.v (pc_step / cc_step mirror the two controllers' Receive; the network is the
        monotone set of sent messages, any element deliverable any number of times in any order or never): inductive
        invariant for ALL legitimate schedules (C42/Proofs.v reach_inv).
Tie:    (A) the real producerController / consumerController structs are driven through their real Receive on a real
        ActorSystem by generated fault schedules; outgoing traffic per recipient and the observable fields after every
        step are compared with the Coq model evaluated (vm_compute) on the same schedule.
Oracle: on the real traffic only — Delivery sequence 1,2,3,... with the stored message at each seq, re-presentation only
        before the consumer's confirmation, chain confirmed<=delivered<=stored, confirmation notices once and in order,
        payload integrity, everything confirmed after a loss-free fair tail.
"""
from rd_util import run_rd_check, oracle_c42

THEOREMS = ["C42_in_order_no_gaps", "C42_represented_only_while_in_flight", "C42_chain_confirmed_delivered_stored",
            "C42_progress_confirmed_increases", "C42_confirmed_to_producer_once_in_order"]


def run(ctx):
    run_rd_check(ctx, "C42", "TestVerifC42", ["zz_verif_C42_test.go"],
                 [("smooth", 2), ("lossy", 5), ("slowcons", 2), ("badendpoint", 1), ("hostile", 2)],
                 oracle_c42, THEOREMS, quick_n=40, thorough_n=400)


META = {
    "ready": True,
    "category": "proof",
    "technique": "Rocq inductive invariant over an executable model of both controllers + faulty network; actor-step conformance of the real controllers on generated fault schedules",
    "text": "Five theorems for ALL fault schedules of any length (any loss/duplication/reordering/delay of controller traffic, any timer firing, any endpoint behaviour): the Delivery sequence is 1,2,3,... carrying the stored message of each seq; a Delivery is (re)presented only while it is the unconfirmed one in flight and the watermark never goes back; confirmed<=delivered<=stored with the unconfirmed buffer exactly the contiguous run; from every reachable live state with something unconfirmed a computed fault-free continuation (two consumer ticks, loss-free delivery of the newest messages, consumer confirming) strictly increases the producer's confirmedSeq; the DeliveryConfirmed notices told to the producer endpoint are exactly the stored messages 1..confirmedSeq, once each, in order. The real controllers run the same generated schedules step by step and must agree with the Coq model on all traffic and 30 state fields; an independent oracle checks the property on the real traffic, including confirmation of everything after a loss-free fair tail.",
    "design_ref": "DESIGN.md 7/C42",
    "level_note": "Proved over the volatile whole-payload core. Second layer (real code under the same fault schedules + property oracle, no Coq model): chunked flows, durable-queue lane. Not covered: controller restarts (excluded by the statement), cross-node companion resolution, serializer internals.",
}
