"""C13 — stashed messages are neither lost, duplicated nor reordered.

Proof:  Properties/C13.v over C13/Model.v (stash box = FIFO; Stash appends a clone of the current message; Unstash
        pops the oldest and re-sends it to the actor's own mailbox; UnstashAll drains in order; no buffer =>
        ErrStashBufferNotSet), for every history of arrivals and deliveries with any calls.
Tie:    generated histories on REAL actors through the public API (zz_verif_C13_test.go): a gate in the handler
        lets the harness interleave arrivals with deliveries; every delivery (message identity), every call's
        error and StashSize() are recorded and compared with the Coq model itself (vm_compute).
Oracle: the statement, written independently in Python: per message identity #deliveries = 1 + #times unstashed
        (exactly once), the re-deliveries come in unstash order, UnstashAll = stash order, Unstash = oldest,
        error (ErrStashBufferNotSet) on every call without a buffer.
"""
import json
import os
import re

from vlib import read_jsonl, canon_hash

ACT = {"S": "Stash", "U": "Unstash", "A": "UnstashAll"}


# ----------------------------------------------------------------------------- generation
def gen_events(rng, n_events, malformed):
    ev = []
    next_id = 1
    queued = 0  # generator heuristic only
    stash = 0
    for _ in range(n_events):
        r = rng.random()
        if r < (0.45 if queued < 3 else 0.25):
            for _ in range(rng.choice([1, 1, 2, 3])):
                ev.append({"e": "A", "m": next_id})
                next_id += 1
                queued += 1
        else:
            k = rng.random()
            if malformed:
                d = [rng.choice("SUA") for _ in range(rng.choice([0, 1, 2, 3, 4]))]
            elif k < 0.30:
                d = []
            elif k < 0.62:
                d = ["S"]
            elif k < 0.76:
                d = ["U"]
            elif k < 0.86:
                d = ["A"]
            elif k < 0.90:
                d = ["S", "U"]
            elif k < 0.93:
                d = ["S", "A"]
            elif k < 0.96:
                d = ["S", "S"]
            else:
                d = [rng.choice("SUA") for _ in range(3)]
            ev.append({"e": "D", "d": d})
            if queued:
                queued -= 1
                for a in d:
                    if a == "S":
                        stash += 1
                    elif a == "U" and stash:
                        stash -= 1
                        queued += 1
                    elif a == "A":
                        queued += stash
                        stash = 0
    # drain the mailbox, flush the stash with one more message, drain again: exposes everything left
    total = len(ev) * 4 + 8
    ev += [{"e": "D", "d": []} for _ in range(min(total, queued + 3))]
    ev.append({"e": "A", "m": next_id})
    ev.append({"e": "D", "d": ["A"]})
    ev += [{"e": "D", "d": []} for _ in range(min(total, stash + 3))]
    return ev


def gen_cycles(rng):
    """several stash -> unstash cycles on one actor, with the process-wide context pool rotated ("R") while
    messages are parked and between cycles; the stash is emptied all at once, one by one (also down to empty and
    beyond: Unstash on the empty stash), or mixed, and is used again afterwards"""
    ev = []
    nid = 1
    def arrive(n=1):
        nonlocal nid
        for _ in range(n):
            ev.append({"e": "A", "m": nid})
            nid += 1
    for cyc in range(rng.choice([2, 2, 3, 4])):
        if rng.random() < 0.25:          # Unstash on an EMPTY stash first
            arrive()
            ev.append({"e": "D", "d": rng.choice([["U"], ["U", "U"], ["A", "U"]])})
        k = rng.choice([1, 1, 2, 3, 5])
        arrive(k)
        ev += [{"e": "D", "d": ["S"]} for _ in range(k)]
        if rng.random() < 0.7:
            ev.append({"e": "R"})
        arrive()                          # the message whose handler starts unstashing
        mode = rng.choice(["all", "chain", "inhandler", "mixed", "over"])
        if mode == "all":
            ev.append({"e": "D", "d": ["A"]})
            ev += [{"e": "D", "d": []} for _ in range(k)]
        elif mode == "chain":             # every re-delivered message unstashes the next one, until empty
            ev += [{"e": "D", "d": ["U"]} for _ in range(k + 1)]
        elif mode == "inhandler":         # one handler unstashes them one by one
            ev.append({"e": "D", "d": ["U"] * k})
            ev += [{"e": "D", "d": []} for _ in range(k)]
        elif mode == "mixed":
            ev.append({"e": "D", "d": ["U", "A"]})
            ev += [{"e": "D", "d": []} for _ in range(k)]
        else:                             # one more Unstash than there are messages
            ev.append({"e": "D", "d": ["U"] * (k + 1)})
            ev += [{"e": "D", "d": []} for _ in range(k)]
        ev.append({"e": "D", "d": []})
        if rng.random() < 0.4:
            ev.append({"e": "R"})
    # a last cycle, then flush
    arrive(2)
    ev += [{"e": "D", "d": ["S"]}, {"e": "D", "d": ["S"]}]
    if rng.random() < 0.5:
        ev.append({"e": "R"})
    arrive()
    ev.append({"e": "D", "d": ["A"]})
    ev += [{"e": "D", "d": []} for _ in range(4)]
    return ev


def gen_cases(ctx):
    rng = ctx.rng
    cases = []
    for c in json.load(open(os.path.join("corpus", "C13", "cases.json"))):
        cases.append({"buf": c["buf"], "events": c["events"], "origin": "corpus"})
    n_rand = 800 if ctx.thorough else 220
    for i in range(n_rand):
        malformed = rng.random() < 0.15
        buf = rng.random() > 0.12
        n = rng.choice([3, 6, 10, 16, 24, 40])
        cases.append({"buf": buf, "events": gen_events(rng, n, malformed), "origin": "malformed" if malformed else ("structured" if buf else "nobuffer")})
    for i in range(300 if ctx.thorough else 45):
        cases.append({"buf": True, "events": gen_cycles(rng), "origin": "cycles"})
    # long history: a deep stash unstashed one by one and all at once
    for depth in ([150] if not ctx.thorough else [150, 1500]):
        ev = [{"e": "A", "m": j + 1} for j in range(depth)]
        ev += [{"e": "D", "d": ["S"]} for _ in range(depth)]
        ev += [{"e": "A", "m": depth + 1}, {"e": "D", "d": ["U"] * (depth // 3)}]
        ev += [{"e": "A", "m": depth + 2}, {"e": "D", "d": ["A"]}]
        ev += [{"e": "D", "d": []} for _ in range(depth + 4)]
        cases.append({"buf": True, "events": ev, "origin": "long"})
    for i, c in enumerate(cases):
        c["id"] = i
    return cases


# ----------------------------------------------------------------------------- property oracle
def oracle(case, out):
    """independent of the Coq model: bookkeeping of message identities only"""
    deferred = []     # discrepancies of the stash's own state/result codes: reported only when no message-level
                      # consequence (lost / duplicated / reordered / hung) shows up in the same history
    box = []          # identities stashed and not yet unstashed (stash order)
    unstashed = []    # identities moved out of the stash, in order
    deliveries = []   # identities in delivery order
    arrived = [e["m"] for e in case["events"] if e["e"] == "A"]
    steps = [s for s in out["steps"] if not s.get("noop")] + out["extra"]
    n = -1
    for s in steps:
        if s.get("rot"):
            if s.get("size", 0) != len(box):
                deferred.append(("stash:size", "after the context pool was rotated (other actors exchanged %s messages) StashSize()=%d although %d messages %s are stashed and not unstashed" %
                        ("2 x pool capacity", s.get("size", 0), len(box), box[:10]), {"parked": list(box)}))
            continue
        n += 1
        deliveries.append(s["id"])
        if not s["same"]:
            return ("stash:different-message", "delivery %d of identity %d: the context does not carry the message object that was sent together with its sender" % (n, s["id"]), {"delivery": n})
        for r in s["res"]:
            a = r["a"]
            if not case["buf"]:
                if r["err"] != "nobuf":
                    return ("stash:no-buffer-no-error", "%s without a stash buffer reported %r instead of ErrStashBufferNotSet" % (ACT[a], r["err"]), {"delivery": n})
                continue
            if a == "S":
                if r["err"]:
                    deferred.append(("stash:stash-error", "Stash with a buffer reported %r" % r["err"], {"delivery": n}))
                box.append(s["id"])
            elif a == "U":
                if box:
                    if r["err"]:
                        deferred.append(("stash:unstash-error", "Unstash with %d stashed messages reported %r" % (len(box), r["err"]), {"delivery": n}))
                    unstashed.append(box.pop(0))   # the oldest
                elif not r["err"]:
                    deferred.append(("stash:unstash-empty-no-error", "Unstash on an empty stash reported no error", {"delivery": n}))
            else:
                if r["err"]:
                    deferred.append(("stash:unstashall-error", "UnstashAll reported %r" % r["err"], {"delivery": n}))
                unstashed += box               # all, in stash order
                box = []
            if r["after"] != len(box):
                deferred.append(("stash:size", "after %s in delivery %d StashSize()=%d, %d messages are stashed and not unstashed" % (ACT[a], n, r["after"], len(box)), {"delivery": n}))
    if out.get("hung"):
        ev = out.get("hung_event", -1)
        call = out.get("hung_call", -1)
        where = out.get("hung_where", "")
        if ev >= 0 and call >= 0:
            d = case["events"][ev].get("d") or []
            act = ACT.get(d[call], "?") if call < len(d) else "?"
            consequence = ("the %d stashed messages %s are never re-delivered" % (len(box), box[:10])) if box else "whatever is stashed or sent to it afterwards is never delivered"
            return ("stash:call-never-returns", "%s (call %d of the delivery at event %d) did not return: %s; the actor is blocked for good, %s" %
                    (act, call, ev, where, consequence), {"event": ev, "call": call, "parked": list(box)})
        counts = {}
        for m in deliveries:
            counts[m] = counts.get(m, 0) + 1
        worst = max(counts.items(), key=lambda kv: kv[1]) if counts else (None, 0)
        return ("stash:never-idle", "%s (event %d); so far message %s was delivered %d times, it arrived once and was unstashed %d times" %
                (where, ev, worst[0], worst[1], unstashed.count(worst[0])), {"event": ev, "deliveries": deliveries[:200]})
    if out.get("lost"):
        owed = [m for m in arrived if deliveries.count(m) < 1 + unstashed.count(m)]
        return ("stash:lost", "the actor stayed idle although a delivery was owed at event %d: messages %s were sent/unstashed more often than delivered (stashed message never re-delivered)" %
                (out.get("hung_event", -1), owed[:10]), {"owed": owed, "deliveries": deliveries, "unstashed": unstashed})
    # exactly once: every identity is delivered once for its arrival and once per time it left the stash
    seen = {}
    redelivered = []
    for m in deliveries:
        if m in seen:
            redelivered.append(m)
        seen[m] = seen.get(m, 0) + 1
    if out["final_size"] != len(box):
        deferred.append(("stash:size", "final StashSize()=%d, expected %d" % (out["final_size"], len(box)), {}))
    for m in arrived:
        want = 1 + unstashed.count(m)
        if seen.get(m, 0) != want:
            kind = "lost" if seen.get(m, 0) < want else "duplicated"
            return ("stash:" + kind, "message %d was delivered %d times; it arrived once and was unstashed %d times (expected %d deliveries)" % (m, seen.get(m, 0), unstashed.count(m), want),
                    {"message": m, "deliveries": deliveries, "unstashed": unstashed})
    for m in seen:
        if m not in arrived:
            return ("stash:duplicated", "delivery of identity %d that was never sent" % m, {})
    if redelivered != unstashed:
        return ("stash:reordered", "re-deliveries came in order %s, the messages left the stash in order %s" % (redelivered[:20], unstashed[:20]), {"redelivered": redelivered, "unstashed": unstashed})
    if deferred:
        return deferred[0]
    return None


# ----------------------------------------------------------------------------- Coq encoding
RES = {"": "ROk", "nobuf": "RNoBuffer"}


def coq_cases(cases, outs):
    items = []
    for c, o in zip(cases, outs):
        ev = "[" + "; ".join(("Arrive %d" % e["m"]) if e["e"] == "A" else ("Deliver [%s]" % "; ".join(ACT[a] for a in (e.get("d") or []))) for e in c["events"] if e["e"] != "R") + "]"
        steps = []
        for s in o["steps"]:
            if s.get("rot"):
                continue          # the pool rotation is not an event of the model (it must not change anything)
            if s.get("noop"):
                steps.append("None")
            else:
                steps.append("Some (%d, [%s])" % (s["id"], "; ".join("(%s, %d)" % (RES.get(r["err"], "REmpty"), r["after"]) for r in s["res"])))
        extra = "[" + "; ".join("%d" % s["id"] for s in o["extra"]) + "]"
        items.append("(%d, %s, %s, [%s], %s, %d)" % (c["id"], "true" if c["buf"] else "false", ev, "; ".join(steps), extra, o["final_size"]))
    return """From Coq Require Import List Bool Arith. Import ListNotations.
From GV Require Import C13.Model.
Open Scope nat_scope.
Definition res_eqb (a b : result) : bool :=
  match a, b with ROk, ROk => true | RNoBuffer, RNoBuffer => true | REmpty, REmpty => true | _, _ => false end.
Fixpoint list_eqb {A} (eq : A -> A -> bool) (x y : list A) : bool :=
  match x, y with [] , [] => true | a :: x', b :: y' => eq a b && list_eqb eq x' y' | _, _ => false end.
Definition ob_eqb (a b : result * nat) : bool := res_eqb (fst a) (fst b) && Nat.eqb (snd a) (snd b).
Definition seen : Type := option (nat * list (result * nat)).
Definition seen_eqb (a b : seen) : bool :=
  match a, b with
  | None, None => true
  | Some (m, l), Some (m', l') => Nat.eqb m m' && list_eqb ob_eqb l l'
  | _, _ => false
  end.
Definition forget (o : output) : seen := match o with Some (m, _, l) => Some (m, l) | None => None end.
(* only the "D" events produce a step in the harness record *)
Fixpoint d_outputs (es : list event) (os : list output) : list seen :=
  match es, os with
  | Arrive _ :: es', _ :: os' => d_outputs es' os'
  | Deliver _ :: es', o :: os' => forget o :: d_outputs es' os'
  | _, _ => []
  end.
Definition case : Type := (nat * bool * list event * list seen * list nat * nat)%%type.
Definition cases : list case := [
%s
].
Definition agrees (c : case) : bool :=
  match c with (_, buf, es, steps, extra, fin) =>
    let r := run (init buf) es in
    list_eqb seen_eqb (d_outputs es (snd r)) steps
    && list_eqb Nat.eqb (ids (mbox (fst r))) extra
    && Nat.eqb (length (box (fst r))) fin
  end.
Definition bad := filter (fun c => negb (agrees c)) cases.
Definition summary := (length cases, length bad, map (fun c : case => match c with (i, _, _, _, _, _) => i end) (firstn 5 bad)).
Eval vm_compute in summary.
""" % ";\n".join(items)


def run(ctx):
    ctx.trusted += ["Go harness zz_verif_C13_test.go (gate in the handler; clears the recorded error after reading it)",
                    "the generated cases.v encoding of the recorded runs"]
    ctx.assumptions += ["the actor's own mailbox accepts the re-sent clone (default unbounded mailbox; a full bounded mailbox dead-letters it: C18)",
                        "Stash/Unstash/UnstashAll are called from the actor's own handler (single consumer of the stash box)",
                        "the actor system is not shutting down while unstashing (doReceive then dead-letters user messages)"]
    cases = gen_cases(ctx)
    with open(os.path.join(ctx.work, "c13_in.jsonl"), "w") as f:
        for c in cases:
            f.write(json.dumps({"id": c["id"], "buf": c["buf"], "events": c["events"]}) + "\n")
    outp = os.path.join(ctx.work, "c13_out.jsonl")
    if os.path.exists(outp):
        os.remove(outp)
    ctx.log("running %d histories on real actors" % len(cases))
    rc, out = ctx.go_test("actor", "^TestVerifC13", ["zz_verif_C13_test.go"], timeout=1800)
    ctx.log("go harness done rc=%d" % rc)
    outs = read_jsonl(outp)
    if rc != 0 or len(outs) != len(cases):
        ctx.tie_broken("go-harness actor stash (TestVerifC13)", out)
        outs = outs if len(outs) == len(cases) else []
    by_id = {o["id"]: o for o in outs}
    outs = [by_id.get(c["id"]) for c in cases] if outs else []

    n_bad = 0
    n_skipped = 0
    n_incomplete = 0
    for c, o in zip(cases, outs):
        if o is not None and o.get("skipped"):
            n_skipped += 1
            continue
        if o is None or o.get("err"):
            n_incomplete += 1
            if n_incomplete == 1:
                ctx.tie_broken("go-harness case did not complete", {"case": c, "err": (o or {}).get("err")})
            continue
        v = oracle(c, o)
        if v:
            n_bad += 1
            if n_bad <= 3:
                sig, text, detail = v
                hist = " ".join(("A%d" % e["m"]) if e["e"] == "A" else "R" if e["e"] == "R" else ("D[%s]" % ",".join(e.get("d") or [])) for e in c["events"][:40])
                ctx.violation(sig, "history %s%s (stash buffer: %s): %s" % (hist, " ..." if len(c["events"]) > 40 else "", c["buf"], text),
                              {"driver": "go/inpkg/actor/zz_verif_C13_test.go TestVerifC13Stash", "legend": "A<n>: message n sent; D[calls]: next delivery makes the calls S=Stash U=Unstash A=UnstashAll; R: 2 x contextPoolSize messages go through another actor (rotates the shared ReceiveContext pool)",
                               "case": c, "observed": o, "detail": detail})

    mism = None
    good = [(c, o) for c, o in zip(cases, outs) if o is not None and not o.get("err") and not o.get("lost") and not o.get("hung") and not o.get("skipped")]
    if n_skipped:
        ctx.notes.append("%d cases were not run because two earlier cases hung and were abandoned (their blocked handlers hold dispatcher workers)" % n_skipped)
        if not any(f.kind == "violation" for f in ctx.findings):
            ctx.tie_broken("go-harness cases skipped without a reported hang", {"skipped": n_skipped})
    ok_m, out_m = ctx.coq_build(["theories/C13/Model.vo"])
    if not ok_m:
        ctx.tie_broken("C13/Model.v does not compile", out_m)
    elif good:
        rc2, o2 = ctx.coq_eval("cases_C13", coq_cases([c for c, _ in good], [o for _, o in good]))
        flat = " ".join(o2.split())
        m_ = re.search(r"= \((\d+)(?:%nat)?, (\d+)(?:%nat)?, (\[.*?\])\)", flat)
        if rc2 != 0 or not m_:
            ctx.tie_broken("model-vs-implementation (cases.v did not evaluate)", o2)
        else:
            mism = int(m_.group(2))
            if mism:
                ids = [int(x) for x in re.findall(r"\d+", m_.group(3))]
                first = next((c for c in cases if c["id"] in ids), None)
                ctx.tie_broken("model-vs-implementation C13/Model.v run vs real actors",
                               {"mismatching_cases": mism, "first_ids": ids, "first_case": first, "observed": by_id.get(first["id"]) if first else None})
    ctx.log("model comparison done, mismatches=%s" % mism)

    if not ctx.coq_property():
        if not any(f.kind == "violation" for f in ctx.findings):
            ctx.proof_broken("Properties/C13.v (%s)" % getattr(ctx, "failed_at", "?"), getattr(ctx, "coq_log", ""))
        else:
            ctx.notes.append("Coq obligation broken at %s; concrete failing input reported" % getattr(ctx, "failed_at", "?"))

    hist = {"Stash": 0, "Unstash": 0, "UnstashAll": 0}
    errs = {}
    nontriv = set()
    deliveries = 0
    max_stash = 0
    for c, o in good:
        steps = [s for s in o["steps"] if not s.get("noop") and not s.get("rot")] + o["extra"]
        deliveries += len(steps)
        n_un = 0
        for s in steps:
            for r in s["res"]:
                hist[ACT[r["a"]]] += 1
                errs[r["err"] or "ok"] = errs.get(r["err"] or "ok", 0) + 1
                max_stash = max(max_stash, r["after"])
                if r["a"] in "UA" and not r["err"] and r["before"] > r["after"]:
                    n_un += 1
        ids_ = [s["id"] for s in steps]
        if c["buf"] and n_un >= 2 and len(ids_) != len(set(ids_)):
            nontriv.add(canon_hash(c["events"]))
    ctx.coverage.update({
        "evaluations": deliveries,
        "cases": len(good),
        "distinct_nontrivial": len(nontriv),
        "rule": "a case = one fresh real actor + a history of arrivals and gated deliveries, each delivery making 0..4 Stash/Unstash/UnstashAll calls; non-trivial = stash buffer present, at least two calls that moved messages out of the stash and at least one message delivered more than once; distinct by history",
        "call_histogram": hist, "result_histogram": errs, "max_stash_size": max_stash,
        "origins": {k: sum(1 for c, _ in good if c["origin"] == k) for k in ("corpus", "structured", "malformed", "nobuffer", "cycles", "long")},
        "pool_rotations": sum(1 for c, _ in good for e in c["events"] if e["e"] == "R"),
        "model_vs_implementation_mismatches": mism,
        "samples": [{"buf": c["buf"], "events": c["events"][:10], "deliveries": [s["id"] for s in o["steps"] if not s.get("noop") and not s.get("rot")][:10]} for c, o in good[:2] + good[30:32]],
        "theorems": ["C13_stash_is_fifo", "C13_redelivered_exactly_once", "C13_all_come_back", "C13_delivery_count", "C13_fresh_messages_unaffected",
                     "C13_unstash_oldest", "C13_unstashAll_in_stash_order", "C13_stash_appends", "C13_no_buffer_reports_error"],
    })
    ctx.notes.append("The doc comments of Unstash/UnstashAll say the messages are 'prepended' to the mailbox; the code appends them (doReceive). "
                     "The property only fixes the order among re-delivered messages, which holds; modelled as coded.")


META = {
    "ready": True,
    "category": "proof",
    "technique": "Rocq invariant proof over all histories (stash conservation as list equalities) + differential run of the Coq model against real actors",
    "text": "Stash box modelled as coded (FIFO, clone appended; Unstash pops the oldest and re-sends to the own mailbox; UnstashAll drains in order; no buffer => ErrStashBufferNotSet). Proved for every history of arrivals/deliveries with any calls: stashed = unstashed ++ box; redelivered ++ pending-re-sent = unstashed; per-identity delivery count = arrivals + unstashes; no-buffer calls all report the error. Real actors run generated gated histories through the public API; delivery order, per-call error and StashSize are compared with the Coq model (vm_compute) and with an independent identity-counting oracle.",
    "design_ref": "DESIGN.md 7/C13",
    "level_note": "Trusted: Coq kernel, harness, Go compiler. Hypothesis: own mailbox accepts the re-sent clone (bounded-mailbox rejection is C18). Reentrancy-driven automatic stashing (stash-mode requests) uses the same stash/unstashAll functions and is not separately driven here.",
}
